//! C17 — union-find: same class iff connected, representative is the minimum id.
use crate::rng::Rng;
use crate::{fnv, now, Outcome};
use egglog_union_find::concurrent::UnionFind as CUf;
use egglog_union_find::UnionFind as SUf;
use std::sync::Arc;

/// Partition model: naive array of class labels.
#[derive(Clone)]
pub struct Model {
    pub class: Vec<usize>,
}

impl Model {
    pub fn new(n: usize) -> Self {
        Model { class: (0..n).collect() }
    }
    pub fn grow(&mut self, n: usize) {
        while self.class.len() < n {
            self.class.push(self.class.len());
        }
    }
    pub fn union(&mut self, a: usize, b: usize) {
        self.grow(a.max(b) + 1);
        let (ca, cb) = (self.class[a], self.class[b]);
        if ca != cb {
            let keep = ca.min(cb);
            let drop = ca.max(cb);
            for c in self.class.iter_mut() {
                if *c == drop {
                    *c = keep;
                }
            }
        }
    }
    /// class label is kept equal to the minimum member by construction
    pub fn rep(&mut self, a: usize) -> usize {
        self.grow(a + 1);
        self.class[a]
    }
    pub fn reset(&mut self) {
        for (i, c) in self.class.iter_mut().enumerate() {
            *c = i;
        }
    }
}

#[derive(Clone, Copy, Debug, PartialEq, Eq)]
pub enum SeqOp {
    Union(usize, usize),
    Find(usize),
    FindNaive(usize),
    Reset,
}

/// Run one op sequence on the sequential UF against the model; returns an error description.
pub fn check_seq(ops: &[SeqOp], n: usize) -> Result<(), String> {
    let mut uf: SUf<usize> = SUf::default();
    let mut m = Model::new(n);
    for (i, op) in ops.iter().enumerate() {
        match *op {
            SeqOp::Union(a, b) => {
                let ra = m.rep(a);
                let rb = m.rep(b);
                let (p, c) = uf.union(a, b);
                m.union(a, b);
                let want = if ra == rb { (ra, ra) } else { (ra.min(rb), ra.max(rb)) };
                if (p, c) != want {
                    return Err(format!("op {i} {op:?}: union returned (parent {p}, child {c}), expected {want:?}"));
                }
            }
            SeqOp::Find(a) => {
                let r = uf.find(a);
                if r != m.rep(a) {
                    return Err(format!("op {i} {op:?}: find returned {r}, expected minimum of class {}", m.rep(a)));
                }
            }
            SeqOp::FindNaive(a) => {
                let r = uf.find_naive(a);
                if r != m.rep(a) {
                    return Err(format!("op {i} {op:?}: find_naive returned {r}, expected {}", m.rep(a)));
                }
            }
            SeqOp::Reset => {
                uf.reset();
                m.reset();
            }
        }
        // full partition comparison after every op (find_naive does not mutate)
        for x in 0..n {
            let r = uf.find_naive(x);
            if r != m.rep(x) {
                return Err(format!("after op {i} {op:?}: id {x} has representative {r}, model says {}", m.rep(x)));
            }
        }
    }
    Ok(())
}

fn all_ops(n: usize) -> Vec<SeqOp> {
    let mut v = vec![SeqOp::Reset];
    for a in 0..n {
        v.push(SeqOp::Find(a));
        v.push(SeqOp::FindNaive(a));
        for b in 0..n {
            if a != b {
                v.push(SeqOp::Union(a, b));
            }
        }
    }
    v
}

/// Exhaustive sequential check: all op sequences of length `len` over ids 0..n.
pub fn seq_exhaustive(n: usize, len: usize) -> Outcome {
    let mut out = Outcome::default();
    let ops = all_ops(n);
    let mut idx = vec![0usize; len];
    let mut seq = vec![SeqOp::Reset; len];
    loop {
        for (i, k) in idx.iter().enumerate() {
            seq[i] = ops[*k];
        }
        out.evaluations += 1;
        if seq.iter().any(|o| matches!(o, SeqOp::Union(..))) {
            // distinct = distinct resulting partitions x sequence shape is too many to store; count sequences with a union
            out.count("sequences_with_union", 1);
        }
        if let Err(e) = check_seq(&seq, n) {
            let replay = format!("{seq:?}");
            out.violation(&format!("C17:seq:{}", fnv(&replay)), &e, &replay);
            if out.violations.len() >= 5 {
                break;
            }
        }
        // next
        let mut i = 0;
        loop {
            if i == len {
                out.count("exhaustive_spaces_completed", 1);
                return out;
            }
            idx[i] += 1;
            if idx[i] < ops.len() {
                break;
            }
            idx[i] = 0;
            i += 1;
        }
    }
    out
}

pub fn seq_random(seed: u64, cases: u64) -> Outcome {
    let mut out = Outcome::default();
    let root = Rng::new(seed);
    for c in 0..cases {
        let mut rng = root.fork(c);
        let n = 2 + rng.below(40);
        let len = 1 + rng.below(60);
        let mut seq = vec![];
        for _ in 0..len {
            let op = match rng.below(10) {
                0 => SeqOp::Reset,
                1..=5 => SeqOp::Union(rng.below(n), rng.below(n)),
                6..=7 => SeqOp::Find(rng.below(n)),
                _ => SeqOp::FindNaive(rng.below(n)),
            };
            seq.push(if matches!(op, SeqOp::Reset) && !rng.chance(1, 4) { SeqOp::Find(rng.below(n)) } else { op });
        }
        out.evaluations += 1;
        out.distinct.insert(fnv(&format!("{seq:?}")));
        if let Err(e) = check_seq(&seq, n) {
            let replay = format!("n={n} {seq:?}");
            out.violation(&format!("C17:seq:{}", fnv(&replay)), &e, &replay);
        }
        if c == 0 {
            out.samples.push(format!("n={n} {seq:?}"));
        }
    }
    out
}

// ---------------------------------------------------------------------------
// concurrent histories

#[derive(Clone, Copy, Debug)]
pub enum CKind {
    Union,
    Find,
    SameSet,
}

#[derive(Clone, Copy, Debug)]
pub struct Ev {
    pub tid: usize,
    pub kind: CKind,
    pub a: usize,
    pub b: usize,
    pub call: u64,
    pub ret: u64,
    /// union: (parent, child); find: (rep, 0); same_set: (0/1, 0)
    pub r0: usize,
    pub r1: usize,
}

pub struct Scenario {
    pub threads: usize,
    pub ops_per_thread: usize,
    pub hot: usize,
    pub cold_max: usize,
    pub capacity: usize,
}

/// Run one concurrent scenario; returns (history, final representatives 0..maxid).
pub fn run_concurrent(seed: u64, sc: &Scenario) -> (Vec<Ev>, Vec<usize>) {
    let uf: CUf<usize> = CUf::with_capacity(sc.capacity);
    let uf = Arc::new(uf);
    let mut handles = vec![];
    let start = Arc::new(std::sync::Barrier::new(sc.threads));
    for t in 0..sc.threads {
        let uf = uf.clone();
        let start = start.clone();
        let (opn, hot, cold_max) = (sc.ops_per_thread, sc.hot, sc.cold_max);
        handles.push(std::thread::spawn(move || {
            let mut rng = Rng::new(seed ^ (t as u64 + 1).wrapping_mul(0x9E3779B97F4A7C15));
            let mut evs = Vec::with_capacity(opn);
            start.wait();
            for _ in 0..opn {
                let pick = |rng: &mut Rng| if cold_max > hot && rng.chance(1, 12) { hot + rng.below(cold_max - hot) } else { rng.below(hot) };
                let a = pick(&mut rng);
                let b = pick(&mut rng);
                let k = rng.below(10);
                if k < 5 {
                    let call = now();
                    let (p, c) = uf.union(a, b);
                    let ret = now();
                    evs.push(Ev { tid: t, kind: CKind::Union, a, b, call, ret, r0: p, r1: c });
                } else if k < 8 {
                    let call = now();
                    let s = uf.same_set(a, b);
                    let ret = now();
                    evs.push(Ev { tid: t, kind: CKind::SameSet, a, b, call, ret, r0: s as usize, r1: 0 });
                } else {
                    let call = now();
                    let r = uf.find(a);
                    let ret = now();
                    evs.push(Ev { tid: t, kind: CKind::Find, a, b: 0, call, ret, r0: r, r1: 0 });
                }
            }
            evs
        }));
    }
    let mut hist = vec![];
    for h in handles {
        hist.extend(h.join().expect("uf worker thread panicked"));
    }
    let maxid = hist.iter().map(|e| e.a.max(e.b)).max().unwrap_or(0) + 1;
    let fin: Vec<usize> = (0..maxid).map(|x| uf.find(x)).collect();
    (hist, fin)
}

struct Dsu(Vec<usize>);
impl Dsu {
    fn new(n: usize) -> Self {
        Dsu((0..n).collect())
    }
    fn find(&mut self, mut x: usize) -> usize {
        while self.0[x] != x {
            self.0[x] = self.0[self.0[x]];
            x = self.0[x];
        }
        x
    }
    /// union keeping min as root
    fn union(&mut self, a: usize, b: usize) {
        let (ra, rb) = (self.find(a), self.find(b));
        if ra != rb {
            self.0[ra.max(rb)] = ra.min(rb);
        }
    }
}

/// Necessary conditions for linearizability of the monotone union-find object
/// (each failing condition is a true violation and its own witness).
pub fn check_history(hist: &[Ev], fin: &[usize]) -> Result<(), String> {
    let n = fin.len();
    // (1) final partition = closure of all issued unions, representative = min
    let mut all = Dsu::new(n);
    for e in hist {
        if let CKind::Union = e.kind {
            all.union(e.a, e.b);
        }
    }
    for x in 0..n {
        if fin[x] != all.find(x) {
            return Err(format!("final state: find({x}) = {}, but the closure of all issued unions gives minimum representative {}", fin[x], all.find(x)));
        }
    }
    // (2) union results
    let mut child_seen = vec![false; n];
    for e in hist {
        if let CKind::Union = e.kind {
            let (p, c) = (e.r0, e.r1);
            if p > c {
                return Err(format!("{e:?}: union returned parent {p} > child {c} (representative must be the minimum)"));
            }
            if p != c {
                if child_seen[c] {
                    return Err(format!("{e:?}: id {c} was linked as a child twice"));
                }
                child_seen[c] = true;
                if all.find(p) != all.find(c) || all.find(p) != all.find(e.a) {
                    return Err(format!("{e:?}: returned (parent, child) are not in the final class of the arguments"));
                }
            }
        }
    }
    // (3),(4) per-query bounds
    for (qi, q) in hist.iter().enumerate() {
        let mut invoked = Dsu::new(n); // unions invoked before q returned
        let mut done = Dsu::new(n); // unions returned before q was called
        for (ui, u) in hist.iter().enumerate() {
            if let CKind::Union = u.kind {
                if ui == qi {
                    continue;
                }
                if u.call < q.ret {
                    invoked.union(u.a, u.b);
                }
                if u.ret < q.call {
                    done.union(u.a, u.b);
                }
            }
        }
        match q.kind {
            CKind::SameSet => {
                let s = q.r0 == 1;
                if s && invoked.find(q.a) != invoked.find(q.b) {
                    return Err(format!("{q:?}: same_set returned true but the ids are not connected by any unions invoked before it returned"));
                }
                if !s && done.find(q.a) == done.find(q.b) {
                    return Err(format!("{q:?}: same_set returned false although the ids were connected by unions that had returned before it was called"));
                }
            }
            CKind::Find => {
                let r = q.r0;
                if r >= n || invoked.find(r) != invoked.find(q.a) {
                    return Err(format!("{q:?}: find returned {r}, which is not connected to {} by unions invoked before it returned", q.a));
                }
                let lo = invoked.find(q.a);
                let hi = done.find(q.a);
                if r < lo || r > hi {
                    return Err(format!("{q:?}: find returned {r}; any linearization point gives a representative in [{lo}, {hi}]"));
                }
            }
            CKind::Union => {
                let (p, c) = (q.r0, q.r1);
                if p == c {
                    // already in the same class before this union took effect
                    if invoked.find(q.a) != invoked.find(q.b) && q.a != q.b {
                        return Err(format!("{q:?}: union reported 'already equal' but no other unions invoked before its return connect the ids"));
                    }
                } else {
                    // p and c were roots (minima) of the classes of a and b at the linearization point
                    let (lo_a, hi_a) = (invoked.find(q.a), done.find(q.a));
                    let (lo_b, hi_b) = (invoked.find(q.b), done.find(q.b));
                    let ok = |x: usize, y: usize| x >= lo_a && x <= hi_a && y >= lo_b && y <= hi_b;
                    if !(ok(p, c) || ok(c, p)) {
                        return Err(format!("{q:?}: returned roots ({p},{c}) are outside the ranges [{lo_a},{hi_a}] / [{lo_b},{hi_b}] any linearization allows"));
                    }
                    if done.find(q.a) == done.find(q.b) {
                        return Err(format!("{q:?}: union linked two roots although the arguments were already connected by unions that had returned before the call"));
                    }
                }
            }
        }
    }
    Ok(())
}

pub fn history_text(hist: &[Ev]) -> String {
    let mut h: Vec<&Ev> = hist.iter().collect();
    h.sort_by_key(|e| e.call);
    h.iter().map(|e| format!("{e:?}")).collect::<Vec<_>>().join("\n")
}

pub fn concurrent_batch(seed: u64, cases: u64, miri: bool) -> Outcome {
    let mut out = Outcome::default();
    let root = Rng::new(seed);
    for c in 0..cases {
        let mut rng = root.fork(c);
        let sc = if miri {
            Scenario { threads: 2 + rng.below(3), ops_per_thread: 6 + rng.below(10), hot: 4 + rng.below(5), cold_max: if rng.chance(1, 2) { 40 } else { 0 }, capacity: 4 }
        } else {
            Scenario {
                threads: 2 + rng.below(7),
                ops_per_thread: 10 + rng.below(50),
                hot: 4 + rng.below(29),
                cold_max: if rng.chance(2, 3) { 64 + rng.below(4032) } else { 0 },
                capacity: *rng.pick(&[1usize, 4, 32]),
            }
        };
        let s = seed ^ c.wrapping_mul(0xD1B54A32D192ED03);
        crate::arm(s);
        let (hist, fin) = run_concurrent(s, &sc);
        out.evaluations += 1;
        out.count("operations", hist.len() as u64);
        let overlapping = hist.iter().filter(|e| hist.iter().any(|f| f.tid != e.tid && f.call < e.ret && e.call < f.ret)).count();
        out.count("operations_overlapping_another_thread", overlapping as u64);
        if sc.cold_max > 0 {
            out.count("histories_with_growth", 1);
        }
        // distinct interleaving signature: order of (tid) by call timestamp
        let mut order: Vec<(u64, usize)> = hist.iter().map(|e| (e.call, e.tid)).collect();
        order.sort();
        let sig: String = order.iter().map(|(_, t)| char::from(b'a' + *t as u8)).collect();
        if overlapping > 0 {
            out.distinct.insert(fnv(&sig));
        }
        if let Err(e) = check_history(&hist, &fin) {
            let replay = format!("seed={s} threads={} hot={} cold_max={} capacity={}\n{}", sc.threads, sc.hot, sc.cold_max, sc.capacity, history_text(&hist));
            out.violation(&format!("C17:conc:{}", fnv(&replay)), &e, &replay);
        }
        if c == 0 {
            out.samples.push(history_text(&hist[..hist.len().min(12)]));
        }
    }
    out
}
