//! C19 (part 1) — thread pool: every task of a scope runs exactly once before the
//! scope returns, panics are re-raised, no deadlock (logical detector).
use crate::rng::Rng;
use crate::{fnv, now, Outcome};
use egglog_concurrency::ThreadPool;
use std::panic::{catch_unwind, AssertUnwindSafe};
use std::sync::atomic::{AtomicU32, AtomicU64, Ordering};

#[derive(Clone, Debug)]
pub struct Node {
    pub id: usize,
    pub children: Vec<Node>,
    /// tasks spawned in a nested scope opened inside this task
    pub nested: Vec<Node>,
    pub panics: bool,
    pub spin: u32,
}

pub struct Tree {
    pub roots: Vec<Node>,
    pub n: usize,
    pub root_panics: bool,
}

fn gen_node(rng: &mut Rng, next: &mut usize, depth: usize, budget: &mut i64, panic_p: u32) -> Node {
    let id = *next;
    *next += 1;
    *budget -= 1;
    let mut node = Node { id, children: vec![], nested: vec![], panics: panic_p > 0 && rng.chance(panic_p, 100), spin: rng.below(200) as u32 };
    if depth > 0 && *budget > 0 {
        let k = rng.weighted(&[5, 3, 2, 1, 1]);
        for _ in 0..k {
            if *budget <= 0 {
                break;
            }
            node.children.push(gen_node(rng, next, depth - 1, budget, panic_p));
        }
        if rng.chance(1, 3) && *budget > 0 {
            let k = 1 + rng.below(3);
            for _ in 0..k {
                if *budget <= 0 {
                    break;
                }
                node.nested.push(gen_node(rng, next, depth - 1, budget, panic_p));
            }
        }
    }
    node
}

pub fn gen_tree(rng: &mut Rng, max_nodes: i64, max_depth: usize, panic_p: u32) -> Tree {
    let mut next = 0;
    let mut budget = max_nodes;
    let mut roots = vec![];
    let k = 1 + rng.below(6);
    for _ in 0..k {
        if budget <= 0 {
            break;
        }
        roots.push(gen_node(rng, &mut next, max_depth, &mut budget, panic_p));
    }
    Tree { roots, n: next, root_panics: panic_p > 0 && rng.chance(panic_p, 200) }
}

/// A chain of nested scopes of the given depth (each task opens a scope that spawns the next).
pub fn chain(depth: usize) -> Tree {
    fn mk(i: usize, depth: usize) -> Node {
        Node { id: i, children: vec![], nested: if i + 1 < depth { vec![mk(i + 1, depth)] } else { vec![] }, panics: false, spin: 0 }
    }
    Tree { roots: vec![mk(0, depth)], n: depth, root_panics: false }
}

pub struct Probe {
    pub ran: Vec<AtomicU32>,
    pub end_ts: Vec<AtomicU64>,
    /// for tasks spawned in a nested scope: timestamp at which that nested scope returned
    pub nested_scope_ret: Vec<AtomicU64>,
}

fn spin(n: u32) {
    for _ in 0..n {
        std::hint::spin_loop();
    }
}

fn run_node<'a>(node: &'a Node, scope: &egglog_concurrency::Scope<'a>, probe: &'a Probe) {
    for ch in &node.children {
        scope.spawn(move |s| run_node(ch, s, probe));
    }
    spin(node.spin);
    if !node.nested.is_empty() {
        let r = catch_unwind(AssertUnwindSafe(|| {
            egglog_concurrency::scope(|s2| {
                for ch in &node.nested {
                    s2.spawn(move |s3| run_node(ch, s3, probe));
                }
            });
        }));
        let t = now();
        for ch in &node.nested {
            mark_nested_ret(ch, probe, t);
        }
        probe.ran[node.id].fetch_add(1, Ordering::SeqCst);
        probe.end_ts[node.id].store(now(), Ordering::SeqCst);
        if let Err(p) = r {
            std::panic::resume_unwind(p);
        }
    } else {
        probe.ran[node.id].fetch_add(1, Ordering::SeqCst);
        probe.end_ts[node.id].store(now(), Ordering::SeqCst);
    }
    if node.panics {
        panic!("task {} panics", node.id);
    }
}

fn mark_nested_ret(n: &Node, probe: &Probe, t: u64) {
    probe.nested_scope_ret[n.id].store(t, Ordering::SeqCst);
    for c in &n.children {
        mark_nested_ret(c, probe, t);
    }
    // tasks in deeper nested scopes are bounded by their own (earlier) scope return
}

fn any_panics(n: &Node) -> bool {
    n.panics || n.children.iter().any(any_panics) || n.nested.iter().any(any_panics)
}

/// Set while the root callback of the scenario's scope has returned and the root thread is
/// (about to be) waiting for the scope to complete.
pub static ROOT_WAITING: std::sync::atomic::AtomicBool = std::sync::atomic::AtomicBool::new(false);

/// Run one scenario; Err(description) on violation.
pub fn run_tree(pool: &ThreadPool, tree: &Tree) -> Result<(), String> {
    let probe = Probe {
        ran: (0..tree.n).map(|_| AtomicU32::new(0)).collect(),
        end_ts: (0..tree.n).map(|_| AtomicU64::new(0)).collect(),
        nested_scope_ret: (0..tree.n).map(|_| AtomicU64::new(0)).collect(),
    };
    let expect_panic = tree.root_panics || tree.roots.iter().any(any_panics);
    let r = catch_unwind(AssertUnwindSafe(|| {
        pool.scope(|s| {
            for n in &tree.roots {
                let probe = &probe;
                s.spawn(move |s2| run_node(n, s2, probe));
            }
            if tree.root_panics {
                ROOT_WAITING.store(true, Ordering::SeqCst);
                panic!("root callback panics");
            }
            ROOT_WAITING.store(true, Ordering::SeqCst);
        })
    }));
    ROOT_WAITING.store(false, Ordering::SeqCst);
    let scope_ret = now();
    for i in 0..tree.n {
        let k = probe.ran[i].load(Ordering::SeqCst);
        if k != 1 {
            return Err(format!("task {i} ran {k} times (expected exactly once) by the time scope() returned"));
        }
        let e = probe.end_ts[i].load(Ordering::SeqCst);
        if e == 0 || e > scope_ret {
            return Err(format!("task {i} finished at logical time {e}, after scope() returned at {scope_ret}"));
        }
        let nr = probe.nested_scope_ret[i].load(Ordering::SeqCst);
        if nr != 0 && e > nr {
            return Err(format!("task {i} of a nested scope finished at {e}, after that nested scope returned at {nr}"));
        }
    }
    match (r.is_err(), expect_panic) {
        (true, true) | (false, false) => Ok(()),
        (false, true) => Err("a task (or the root callback) panicked but scope() returned normally".into()),
        (true, false) => Err("scope() panicked although no task panicked".into()),
    }
}

/// Logical deadlock condition from the pool's progress counters (hooks): nothing queued,
/// every started-but-unfinished job is blocked in a scope wait.
#[cfg(egglog_verif)]
pub fn pool_quiescent_blocked() -> (bool, String) {
    use egglog_concurrency::verif as v;
    let (enq, st, fin, we, wx) = (v::counter(v::ENQUEUED), v::counter(v::STARTED), v::counter(v::FINISHED), v::counter(v::WORKER_WAIT_ENTER), v::counter(v::WORKER_WAIT_EXIT));
    let s = format!("enqueued={enq} started={st} finished={fin} worker_wait_enter={we} worker_wait_exit={wx}");
    (ROOT_WAITING.load(Ordering::SeqCst) && enq == st && st - fin == we - wx, s)
}
#[cfg(not(egglog_verif))]
pub fn pool_quiescent_blocked() -> (bool, String) {
    (false, "hooks off".into())
}

/// Run `f` on a helper thread under a logical deadlock detector. Returns
/// Ok(result) / Err("deadlock ...") / Err("watchdog ...") (inconclusive).
pub fn with_deadlock_detector<R: Send + 'static>(f: impl FnOnce() -> R + Send + 'static, budget_ms: u64) -> Result<R, (bool, String)> {
    let (tx, rx) = std::sync::mpsc::channel();
    std::thread::spawn(move || {
        let r = f();
        let _ = tx.send(r);
    });
    let t0 = std::time::Instant::now();
    let mut stable = 0;
    let mut last = String::new();
    loop {
        match rx.recv_timeout(std::time::Duration::from_millis(50)) {
            Ok(r) => return Ok(r),
            Err(std::sync::mpsc::RecvTimeoutError::Timeout) => {
                let (blocked, s) = pool_quiescent_blocked();
                if blocked && s == last {
                    stable += 1;
                } else {
                    stable = 0;
                }
                last = s.clone();
                if stable >= 100 {
                    // 5 s with no counter movement, empty queue and every live job blocked
                    return Err((true, format!("logical deadlock: scope incomplete, queue empty and all live jobs blocked in scope waits ({s})")));
                }
                if t0.elapsed().as_millis() as u64 > budget_ms {
                    return Err((false, format!("watchdog after {budget_ms} ms ({s})")));
                }
            }
            Err(_) => return Err((false, "scenario thread died".into())),
        }
    }
}

pub fn pool_batch(seed: u64, cases: u64, miri: bool) -> Outcome {
    let mut out = Outcome::default();
    let root = Rng::new(seed);
    for c in 0..cases {
        let mut rng = root.fork(c);
        let threads = if miri { 1 + rng.below(3) } else { 1 + rng.below(16) };
        let kind = rng.below(10);
        let (tree, label) = if kind == 0 && !miri {
            (chain(60 + rng.below(12)), "chain")
        } else if kind <= 3 {
            (gen_tree(&mut rng, if miri { 10 } else { 60 }, if miri { 2 } else { 5 }, 8), "panics")
        } else {
            (gen_tree(&mut rng, if miri { 12 } else { 120 }, if miri { 3 } else { 6 }, 0), "plain")
        };
        let s = seed ^ c.wrapping_mul(0xA24BAED4963EE407);
        crate::arm(s);
        let n = tree.n;
        let desc = format!("seed={s} pool_threads={threads} kind={label} tasks={n}");
        let r = if miri {
            let pool = ThreadPool::new(threads);
            let r = run_tree(&pool, &tree);
            // Dropping a pool is a known aliasing-model finding (F-C19-pool-drop-aliasing:
            // `sender.take()` while workers hold a protected `&ThreadPoolState`); it is
            // replayed by a dedicated witness test, not here, so that Miri can keep going.
            std::mem::forget(pool);
            Ok(r)
        } else {
            with_deadlock_detector(
                move || {
                    let pool = ThreadPool::new(threads);
                    let r = run_tree(&pool, &tree);
                    drop(pool);
                    r
                },
                120_000,
            )
        };
        out.evaluations += 1;
        out.count("tasks", n as u64);
        out.count(&format!("scenarios_{label}"), 1);
        out.distinct.insert(fnv(&format!("{threads}|{label}|{n}|{}", s % 64)));
        match r {
            Ok(Ok(())) => {}
            Ok(Err(e)) => out.violation(&format!("C19:pool:{}", fnv(&desc)), &e, &desc),
            Err((true, e)) => out.violation(&format!("C19:deadlock:{}", fnv(&desc)), &e, &desc),
            Err((false, e)) => {
                out.inconclusive.push(format!("{desc}: {e}"));
                // the scenario thread may still hold the pool; stop this batch
                break;
            }
        }
        if c == 0 {
            out.samples.push(desc);
        }
    }
    out
}
