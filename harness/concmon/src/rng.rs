//! Small deterministic PRNG (splitmix64 seeding + xoshiro256**). No external crates.
#[derive(Clone, Debug)]
pub struct Rng {
    s: [u64; 4],
}

fn splitmix(x: &mut u64) -> u64 {
    *x = x.wrapping_add(0x9E3779B97F4A7C15);
    let mut z = *x;
    z = (z ^ (z >> 30)).wrapping_mul(0xBF58476D1CE4E5B9);
    z = (z ^ (z >> 27)).wrapping_mul(0x94D049BB133111EB);
    z ^ (z >> 31)
}

impl Rng {
    pub fn new(seed: u64) -> Self {
        let mut x = seed ^ 0xD1B54A32D192ED03;
        let s = [splitmix(&mut x), splitmix(&mut x), splitmix(&mut x), splitmix(&mut x)];
        Rng { s }
    }
    /// Derive an independent stream for sub-case `i`.
    pub fn fork(&self, i: u64) -> Rng {
        Rng::new(self.s[0] ^ i.wrapping_mul(0xA24BAED4963EE407) ^ self.s[2].rotate_left(17))
    }
    pub fn next_u64(&mut self) -> u64 {
        let r = self.s[1].wrapping_mul(5).rotate_left(7).wrapping_mul(9);
        let t = self.s[1] << 17;
        self.s[2] ^= self.s[0];
        self.s[3] ^= self.s[1];
        self.s[1] ^= self.s[2];
        self.s[0] ^= self.s[3];
        self.s[2] ^= t;
        self.s[3] = self.s[3].rotate_left(45);
        r
    }
    /// uniform in 0..n (n>0)
    pub fn below(&mut self, n: usize) -> usize {
        assert!(n > 0);
        (self.next_u64() % (n as u64)) as usize
    }
    /// uniform in lo..=hi
    pub fn range(&mut self, lo: i64, hi: i64) -> i64 {
        assert!(hi >= lo);
        lo + (self.next_u64() % ((hi - lo + 1) as u64)) as i64
    }
    pub fn chance(&mut self, num: u32, den: u32) -> bool {
        (self.next_u64() % den as u64) < num as u64
    }
    pub fn pick<'a, T>(&mut self, xs: &'a [T]) -> &'a T {
        &xs[self.below(xs.len())]
    }
    pub fn shuffle<T>(&mut self, xs: &mut [T]) {
        for i in (1..xs.len()).rev() {
            let j = self.below(i + 1);
            xs.swap(i, j);
        }
    }
    /// weighted choice: returns index
    pub fn weighted(&mut self, w: &[u32]) -> usize {
        let tot: u32 = w.iter().sum();
        let mut r = (self.next_u64() % tot as u64) as u32;
        for (i, x) in w.iter().enumerate() {
            if r < *x {
                return i;
            }
            r -= *x;
        }
        w.len() - 1
    }
}
