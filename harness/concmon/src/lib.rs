//! concmon: history recorders and checkers for egglog-union-find (C17) and
//! egglog-concurrency (C19). Used natively (stress + perturbation hooks) by the
//! `concmon` binary and, scaled down, under Miri by `tests/miri.rs`.
pub mod pool;
pub mod rng;
pub mod shared;
pub mod uf;

use std::sync::atomic::{AtomicU64, Ordering};

/// One global monotonic logical clock for call/return timestamps.
pub static CLOCK: AtomicU64 = AtomicU64::new(1);

#[inline]
pub fn now() -> u64 {
    CLOCK.fetch_add(1, Ordering::SeqCst)
}

#[derive(Default, Debug)]
pub struct Outcome {
    pub evaluations: u64,
    pub distinct: std::collections::BTreeSet<u64>,
    pub counters: std::collections::BTreeMap<String, u64>,
    pub violations: Vec<(String, String, String)>, // (sig, detail, replay)
    pub inconclusive: Vec<String>,
    pub samples: Vec<String>,
}

impl Outcome {
    pub fn count(&mut self, k: &str, n: u64) {
        *self.counters.entry(k.to_string()).or_insert(0) += n;
    }
    pub fn violation(&mut self, sig: &str, detail: &str, replay: &str) {
        if self.violations.len() < 30 {
            self.violations.push((sig.into(), detail.into(), replay.into()));
        }
        self.count("violations_total", 1);
    }
    pub fn merge(&mut self, o: Outcome) {
        self.evaluations += o.evaluations;
        self.distinct.extend(o.distinct);
        for (k, v) in o.counters {
            self.count(&k, v);
        }
        self.violations.extend(o.violations);
        self.inconclusive.extend(o.inconclusive);
        for s in o.samples {
            if self.samples.len() < 3 {
                self.samples.push(s);
            }
        }
    }
}

pub fn fnv(s: &str) -> u64 {
    let mut h: u64 = 0xcbf29ce484222325;
    for b in s.as_bytes() {
        h ^= *b as u64;
        h = h.wrapping_mul(0x100000001b3);
    }
    h
}

#[cfg(egglog_verif)]
pub fn arm(seed: u64) {
    egglog_concurrency::verif::arm(seed | 1);
}
#[cfg(not(egglog_verif))]
pub fn arm(_seed: u64) {}

#[cfg(egglog_verif)]
pub fn hook_hits() -> u64 {
    egglog_concurrency::verif::hits()
}
#[cfg(not(egglog_verif))]
pub fn hook_hits() -> u64 {
    0
}
