//! concmon binary: native stress runs of the C17 / C19 scenarios.
use concmon::{pool, shared, uf, Outcome};
use serde_json::json;

fn main() {
    let argv: Vec<String> = std::env::args().collect();
    let mut seed = 1u64;
    let mut tier = "quick".to_string();
    let mut out_path = String::new();
    let mut n: Option<u64> = None;
    let mon = argv.get(1).cloned().unwrap_or_default();
    let mut i = 2;
    while i + 1 < argv.len() {
        match argv[i].as_str() {
            "--seed" => seed = argv[i + 1].parse().unwrap(),
            "--tier" => tier = argv[i + 1].clone(),
            "--out" => out_path = argv[i + 1].clone(),
            "--n" => n = Some(argv[i + 1].parse().unwrap()),
            _ => {}
        }
        i += 2;
    }
    let quick = tier != "thorough";
    if std::env::var("VERIF_SHOW_PANICS").is_err() { std::panic::set_hook(Box::new(|_| {})); }
    let mut o = Outcome::default();
    let rule;
    match mon.as_str() {
        "uf-seq" => {
            rule = "sequential union-find vs partition model after every op: exhaustive over all op sequences (union/find/find_naive/reset) for small id spaces, random beyond; distinct = distinct random sequences";
            for (nn, len) in if quick { vec![(2, 5), (3, 4), (4, 3)] } else { vec![(2, 7), (3, 5), (4, 4), (5, 3)] } {
                o.merge(uf::seq_exhaustive(nn, len));
            }
            o.merge(uf::seq_random(seed, n.unwrap_or(if quick { 20000 } else { 400000 })));
        }
        "uf-conc" => {
            rule = "recorded concurrent histories (2-8 threads, hot id space 4-32, cold ids up to 4096 forcing resizes, perturbation hooks armed) checked against necessary conditions of linearizability for the monotone union-find (final closure, min representative, link-once, per-query [invoked, returned] bounds); distinct = distinct thread interleaving orders with real overlap";
            o.merge(uf::concurrent_batch(seed, n.unwrap_or(if quick { 3000 } else { 60000 }), false));
        }
        "pool" => {
            rule = "seeded spawn trees (nested scopes, tasks spawning tasks, panicking tasks, depth-70 chains past the inline-help limit) on pools of 1-16 threads: every task exactly once, finished before its scope returned, panic re-raised; logical deadlock detector on hook counters; distinct = (threads, kind, size, seed class)";
            o.merge(pool::pool_batch(seed, n.unwrap_or(if quick { 1500 } else { 40000 }), false));
        }
        "shared" => {
            rule = "ReadOptimizedLock torn-write/overlap detectors, ConcurrentVec push/read integrity, ParallelVecWriter ranged writes, NotificationList notify->reset exactly-once, all with perturbation hooks armed; distinct = distinct scenario parameterisations";
            o.merge(shared::shared_batch(seed, n.unwrap_or(if quick { 1200 } else { 40000 }), false));
        }
        _ => {
            eprintln!("usage: concmon uf-seq|uf-conc|pool|shared [--seed N] [--tier T] [--out F] [--n N]");
            std::process::exit(2);
        }
    }
    o.count("perturbation_points_hit", concmon::hook_hits());
    let j = json!({
        "property": mon,
        "evaluations": o.evaluations,
        "distinct": o.distinct.iter().collect::<Vec<_>>(),
        "rule": rule,
        "samples": o.samples,
        "counters": o.counters,
        "violations": o.violations.iter().map(|(s, d, r)| json!({"sig": s, "detail": d, "replay": r})).collect::<Vec<_>>(),
        "inconclusive": o.inconclusive,
        "notes": Vec::<String>::new(),
    });
    if out_path.is_empty() {
        println!("{}", serde_json::to_string_pretty(&j).unwrap());
    } else {
        std::fs::write(out_path, serde_json::to_string(&j).unwrap()).unwrap();
    }
}
