fn main() {}
