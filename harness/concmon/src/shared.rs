//! C19 (part 2) — ReadOptimizedLock, ConcurrentVec, ParallelVecWriter, NotificationList.
use crate::rng::Rng;
use crate::{fnv, Outcome};
use egglog_concurrency::{ConcurrentVec, NotificationList, ParallelVecWriter, ReadOptimizedLock};
use std::sync::atomic::{AtomicBool, AtomicU64, Ordering};
use std::sync::Arc;

/// Readers must never see a torn write; writers must never overlap.
/// The payload is plain (non-atomic) memory: a Vec<u64> whose elements are all equal.
pub fn rol_scenario(seed: u64, readers: usize, writers: usize, iters: usize, grow: bool) -> Result<(u64, u64), String> {
    let lock = Arc::new(ReadOptimizedLock::new(vec![0u64; 8]));
    let in_writer = Arc::new(AtomicBool::new(false));
    // logical exclusion monitor, independent of any aliasing model: readers inside the lock
    let active_readers = Arc::new(AtomicU64::new(0));
    let reads = Arc::new(AtomicU64::new(0));
    let writes = Arc::new(AtomicU64::new(0));
    let err: Arc<std::sync::Mutex<Option<String>>> = Arc::new(std::sync::Mutex::new(None));
    let mut hs = vec![];
    for w in 0..writers {
        let (lock, in_writer, writes, err) = (lock.clone(), in_writer.clone(), writes.clone(), err.clone());
        let active_readers = active_readers.clone();
        hs.push(std::thread::spawn(move || {
            let mut rng = Rng::new(seed ^ (0x1000 + w as u64));
            for i in 0..iters {
                // lock-upgrade pattern used by ConcurrentVec::push_at / Buffer::with_access /
                // ParallelVecWriter::reserve_space: read, drop the read guard, then lock
                if rng.chance(1, 2) {
                    let r = lock.read();
                    std::hint::black_box(r.len());
                    drop(r);
                }
                let mut g = lock.lock();
                if in_writer.swap(true, Ordering::SeqCst) {
                    *err.lock().unwrap() = Some(format!("two writers inside the lock at once (writer {w}, iteration {i})"));
                }
                let ar = active_readers.load(Ordering::SeqCst);
                if ar != 0 {
                    *err.lock().unwrap() = Some(format!("writer {w} (iteration {i}) acquired the lock while {ar} reader(s) were inside it"));
                }
                let stamp = ((w as u64 + 1) << 32) | i as u64;
                if grow && rng.chance(1, 3) {
                    let n = g.len() + 1 + rng.below(5);
                    g.resize(n, 0);
                }
                for x in g.iter_mut() {
                    *x = stamp;
                    if rng.chance(1, 16) {
                        std::thread::yield_now();
                    }
                }
                let ar = active_readers.load(Ordering::SeqCst);
                if ar != 0 {
                    *err.lock().unwrap() = Some(format!("{ar} reader(s) entered the lock while writer {w} (iteration {i}) held it"));
                }
                in_writer.store(false, Ordering::SeqCst);
                drop(g);
                writes.fetch_add(1, Ordering::Relaxed);
            }
        }));
    }
    for r in 0..readers {
        let (lock, reads, err) = (lock.clone(), reads.clone(), err.clone());
        let (active_readers, in_writer) = (active_readers.clone(), in_writer.clone());
        hs.push(std::thread::spawn(move || {
            for i in 0..iters * 2 {
                let g = lock.read();
                active_readers.fetch_add(1, Ordering::SeqCst);
                if in_writer.load(Ordering::SeqCst) {
                    *err.lock().unwrap() = Some(format!("reader {r} (iteration {i}) got the lock while a writer was inside it"));
                }
                let first = g[0];
                if let Some(bad) = g.iter().find(|x| **x != first) {
                    *err.lock().unwrap() = Some(format!("reader {r} iteration {i} observed a torn write: {first:#x} and {bad:#x} in one snapshot (len {})", g.len()));
                }
                active_readers.fetch_sub(1, Ordering::SeqCst);
                drop(g);
                reads.fetch_add(1, Ordering::Relaxed);
            }
        }));
    }
    for h in hs {
        h.join().map_err(|_| "thread panicked".to_string())?;
    }
    if let Some(e) = err.lock().unwrap().take() {
        return Err(e);
    }
    Ok((reads.load(Ordering::Relaxed), writes.load(Ordering::Relaxed)))
}

/// Concurrent pushes (+ resize_with + reads): all present, intact, afterwards.
pub fn cvec_scenario(seed: u64, pushers: usize, per: usize, readers: usize, cap: usize) -> Result<u64, String> {
    let v: Arc<ConcurrentVec<(u64, u64)>> = Arc::new(ConcurrentVec::with_capacity(cap));
    let err: Arc<std::sync::Mutex<Option<String>>> = Arc::new(std::sync::Mutex::new(None));
    let stop = Arc::new(AtomicBool::new(false));
    let mut hs = vec![];
    for p in 0..pushers {
        let v = v.clone();
        hs.push(std::thread::spawn(move || {
            let mut idx = vec![];
            for i in 0..per {
                let val = ((p as u64) << 32) | i as u64;
                idx.push((v.push((val, !val)), val));
            }
            idx
        }));
    }
    let mut rhs = vec![];
    for _ in 0..readers {
        let (v, err, stop) = (v.clone(), err.clone(), stop.clone());
        rhs.push(std::thread::spawn(move || {
            let mut n = 0u64;
            while !stop.load(Ordering::Acquire) {
                let g = v.read();
                for (a, b) in g.iter() {
                    if *a != !*b {
                        *err.lock().unwrap() = Some(format!("reader observed a corrupted / half-written element ({a:#x}, {b:#x})"));
                    }
                }
                n += 1;
                drop(g);
                std::thread::yield_now();
            }
            n
        }));
    }
    let _ = seed;
    let mut all = vec![];
    for h in hs {
        all.extend(h.join().map_err(|_| "pusher panicked".to_string())?);
    }
    stop.store(true, Ordering::Release);
    let mut nreads = 0;
    for h in rhs {
        nreads += h.join().map_err(|_| "reader panicked".to_string())?;
    }
    if let Some(e) = err.lock().unwrap().take() {
        return Err(e);
    }
    let g = v.read();
    if g.len() != pushers * per {
        return Err(format!("{} elements present after {} pushes", g.len(), pushers * per));
    }
    let mut seen = std::collections::HashSet::new();
    for (i, val) in &all {
        if g[*i].0 != *val || g[*i].1 != !*val {
            return Err(format!("element pushed as {val:#x} at index {i} reads back as ({:#x},{:#x})", g[*i].0, g[*i].1));
        }
        if !seen.insert(*i) {
            return Err(format!("index {i} was returned to two pushes"));
        }
    }
    Ok(nreads)
}

/// Ranged writes of the parallel writer: every chunk present and intact afterwards.
pub fn pvw_scenario(seed: u64, writers: usize, chunks: usize, initial: usize) -> Result<(), String> {
    let init: Vec<u64> = (0..initial as u64).map(|i| 0xFFFF_0000_0000_0000 | i).collect();
    let w = Arc::new(ParallelVecWriter::new(init.clone()));
    let mut hs = vec![];
    for t in 0..writers {
        let w = w.clone();
        hs.push(std::thread::spawn(move || {
            let mut rng = Rng::new(seed ^ (0x77 + t as u64));
            let mut mine = vec![];
            for c in 0..chunks {
                let len = rng.below(40);
                let items: Vec<u64> = (0..len as u64).map(|i| ((t as u64) << 40) | ((c as u64) << 16) | i).collect();
                let start = if rng.chance(1, 2) { w.write_slice(&items) } else { w.write_contents(items.clone().into_iter()) };
                // read-back through the shared handle while others are writing
                if len > 0 {
                    // SAFETY: the range is covered by this thread's own completed write
                    let ok = unsafe { w.unsafe_read_access().get_unchecked_slice(start..start + len) == &items[..] };
                    if !ok {
                        return Err(format!("writer {t} chunk {c}: read-back of its own range [{start}, {}) differs", start + len));
                    }
                }
                // the prefix present at creation stays readable and intact throughout
                if initial > 0 {
                    let k = rng.below(initial);
                    let ok = w.with_index(k, |x| *x == (0xFFFF_0000_0000_0000 | k as u64));
                    if !ok {
                        return Err(format!("writer {t}: initial element {k} changed while writes were in flight"));
                    }
                }
                mine.push((start, items));
            }
            Ok(mine)
        }));
    }
    let mut all = vec![];
    for h in hs {
        all.extend(h.join().map_err(|_| "writer panicked".to_string())??);
    }
    let w = Arc::try_unwrap(w).map_err(|_| "writer still shared".to_string())?;
    let v = w.finish();
    let total: usize = initial + all.iter().map(|(_, it)| it.len()).sum::<usize>();
    if v.len() != total {
        return Err(format!("final length {} but {} elements were written", v.len(), total));
    }
    if v[..initial] != init[..] {
        return Err("initial contents were overwritten".into());
    }
    let mut covered = vec![false; total];
    for (start, items) in &all {
        if v[*start..*start + items.len()] != items[..] {
            return Err(format!("chunk at {start} (len {}) is corrupted in the final vector", items.len()));
        }
        for i in *start..*start + items.len() {
            if covered[i] {
                return Err(format!("two writers were given overlapping ranges (index {i})"));
            }
            covered[i] = true;
        }
    }
    Ok(())
}

/// An item notified (and acknowledged) must be returned by the next quiescent reset, exactly once.
pub fn notif_scenario(seed: u64, threads: usize, per: usize, space: usize) -> Result<(), String> {
    let nl: NotificationList<usize> = NotificationList::default();
    for round in 0..3 {
        let mut hs = vec![];
        for t in 0..threads {
            let nl = nl.clone();
            hs.push(std::thread::spawn(move || {
                let mut rng = Rng::new(seed ^ ((round * 100 + t) as u64 + 1));
                let mut mine = std::collections::BTreeSet::new();
                for _ in 0..per {
                    let k = rng.below(space);
                    nl.notify(k);
                    mine.insert(k);
                }
                mine
            }));
        }
        let mut want = std::collections::BTreeSet::new();
        for h in hs {
            want.extend(h.join().map_err(|_| "notifier panicked".to_string())?);
        }
        let got: Vec<usize> = nl.reset().into_iter().collect();
        let gset: std::collections::BTreeSet<usize> = got.iter().copied().collect();
        if gset.len() != got.len() {
            return Err(format!("round {round}: reset returned an item twice: {got:?}"));
        }
        if gset != want {
            return Err(format!("round {round}: notified {want:?} but reset returned {gset:?}"));
        }
    }
    let again = nl.reset();
    if !again.is_empty() {
        return Err(format!("reset after reset returned {again:?}"));
    }
    Ok(())
}

pub fn shared_batch(seed: u64, cases: u64, miri: bool) -> Outcome {
    let mut out = Outcome::default();
    let root = Rng::new(seed);
    for c in 0..cases {
        let mut rng = root.fork(c);
        let s = seed ^ c.wrapping_mul(0x9E3779B97F4A7C15);
        crate::arm(s);
        let which = c % 4;
        out.evaluations += 1;
        let (label, desc, r): (&str, String, Result<(), String>) = match which {
            0 => {
                let (rd, wr, it) = if miri { (1 + rng.below(3), 1 + rng.below(2), 3 + rng.below(4)) } else { (1 + rng.below(8), 1 + rng.below(3), 20 + rng.below(200)) };
                let grow = rng.chance(1, 2);
                let d = format!("rol seed={s} readers={rd} writers={wr} iters={it} grow={grow}");
                let r = rol_scenario(s, rd, wr, it, grow).map(|(reads, writes)| {
                    out.count("rol_reads", reads);
                    out.count("rol_writes", writes);
                });
                ("rol", d, r)
            }
            1 => {
                let (p, per, rd) = if miri { (2 + rng.below(2), 4 + rng.below(6), rng.below(2)) } else { (1 + rng.below(8), 10 + rng.below(300), rng.below(4)) };
                let cap = *rng.pick(&[1usize, 2, 16, 128]);
                let d = format!("cvec seed={s} pushers={p} per={per} readers={rd} capacity={cap}");
                let r = cvec_scenario(s, p, per, rd, cap).map(|n| out.count("cvec_concurrent_reads", n));
                out.count("cvec_pushes", (p * per) as u64);
                ("cvec", d, r)
            }
            2 => {
                let (w, ch) = if miri { (2 + rng.below(2), 2 + rng.below(3)) } else { (1 + rng.below(8), 5 + rng.below(60)) };
                let init = rng.below(20);
                let d = format!("pvw seed={s} writers={w} chunks={ch} initial={init}");
                out.count("pvw_chunks", (w * ch) as u64);
                ("pvw", d, pvw_scenario(s, w, ch, init))
            }
            _ => {
                let (t, per, space) = if miri { (2, 4 + rng.below(4), 1 + rng.below(6)) } else { (1 + rng.below(8), 5 + rng.below(100), 1 + rng.below(300)) };
                let d = format!("notif seed={s} threads={t} per={per} space={space}");
                out.count("notifications", (t * per * 3) as u64);
                ("notif", d, notif_scenario(s, t, per, space))
            }
        };
        out.count(&format!("scenarios_{label}"), 1);
        out.distinct.insert(fnv(&desc));
        if let Err(e) = r {
            out.violation(&format!("C19:{label}:{}", fnv(&desc)), &e, &desc);
        }
        if c < 4 {
            out.samples.push(desc);
        }
    }
    out
}

/// Logical exclusion monitor for ConcurrentVec: the fill closure of `resize_with` runs under
/// the write side of the internal lock, so it must never observe a reader inside `read()`.
pub fn cvec_exclusion_scenario(readers: usize, rounds: usize) -> Result<u64, String> {
    let v: Arc<ConcurrentVec<u64>> = Arc::new(ConcurrentVec::with_capacity(1));
    let active = Arc::new(AtomicU64::new(0));
    let stop = Arc::new(AtomicBool::new(false));
    let err: Arc<std::sync::Mutex<Option<String>>> = Arc::new(std::sync::Mutex::new(None));
    let mut hs = vec![];
    for r in 0..readers {
        let (v, active, stop) = (v.clone(), active.clone(), stop.clone());
        hs.push(std::thread::spawn(move || {
            let mut n = 0u64;
            while !stop.load(Ordering::SeqCst) {
                let g = v.read();
                active.fetch_add(1, Ordering::SeqCst);
                let mut s = 0u64;
                for x in g.iter() {
                    s = s.wrapping_add(*x);
                }
                std::hint::black_box((s, r));
                active.fetch_sub(1, Ordering::SeqCst);
                drop(g);
                n += 1;
                std::thread::yield_now();
            }
            n
        }));
    }
    let mut len = 1;
    for k in 0..rounds {
        len = len * 2 + 1;
        let (active, err) = (active.clone(), err.clone());
        let mut calls = 0u32;
        v.resize_with(len, move || {
            // the first call produces the pushed item and runs before the lock is taken;
            // the following calls fill the new slots under the write side of the lock
            calls += 1;
            let a = active.load(Ordering::SeqCst);
            if calls > 1 && a != 0 {
                *err.lock().unwrap() = Some(format!("resize_with fill closure (write side, round {k}) ran while {a} reader(s) were inside read()"));
            }
            k as u64
        });
        std::thread::yield_now();
    }
    stop.store(true, Ordering::SeqCst);
    let mut n = 0;
    for h in hs {
        n += h.join().map_err(|_| "reader panicked".to_string())?;
    }
    if let Some(e) = err.lock().unwrap().take() {
        return Err(e);
    }
    Ok(n)
}
