//! The C17 / C19 scenarios scaled down for Miri (UB + data-race interpreter with
//! weak-memory emulation). Run with `-Zmiri-many-seeds` so that each seed is a
//! different interleaving. Also runnable natively.
use concmon::{pool, shared, uf};

fn seed() -> u64 {
    std::env::var("VERIF_SEED").ok().and_then(|s| s.parse().ok()).unwrap_or(1)
}

fn report(name: &str, o: concmon::Outcome) {
    println!("MIRI-SCENARIO {name} evaluations={} counters={:?}", o.evaluations, o.counters);
    for (sig, detail, replay) in &o.violations {
        println!("MIRI-VIOLATION {name} sig={sig} detail={detail}\n{replay}");
    }
    assert!(o.violations.is_empty(), "{name}: {:?}", o.violations.first());
}

#[test]
fn uf_sequential_small() {
    report("uf_seq", uf::seq_exhaustive(3, 2));
    report("uf_seq_random", uf::seq_random(seed(), 10));
}

#[test]
fn uf_concurrent_histories() {
    report("uf_conc", uf::concurrent_batch(seed(), 2, true));
}

#[test]
fn pool_spawn_trees() {
    report("pool", pool::pool_batch(seed(), 3, true));
}

#[test]
fn shared_structures() {
    // 4 consecutive cases = one of each kind (rol, cvec, pvw, notif)
    report("shared", shared::shared_batch(seed(), 4, true));
}

/// Three roles on ReadOptimizedLock (reader holding a guard, writer swapping the token,
/// a third thread dropping the last reference) — the pattern behind the upstream
/// `buffer_multi_threaded` Miri report.
#[test]
fn rol_three_roles() {
    for i in 0..2 {
        let r = shared::rol_scenario(seed() + i, 3, 2, 3, true);
        assert!(r.is_ok(), "{r:?}");
    }
}

/// Witness for known finding F-C19-pool-drop-aliasing (expected to be reported by Miri):
/// `ThreadPool::drop` writes `state.sender` while worker threads still hold a protected
/// shared reference to the pool state.
#[test]
#[ignore]
fn witness_pool_drop_aliasing() {
    let pool = egglog_concurrency::ThreadPool::new(1);
    pool.scope(|s| s.spawn(|_| {}));
    drop(pool);
}

#[test]
fn cvec_logical_exclusion() {
    let r = shared::cvec_exclusion_scenario(2, 5);
    assert!(r.is_ok(), "{r:?}");
}
