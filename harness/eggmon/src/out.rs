//! Result of one monitor child process, written as JSON for the driver.
use serde_json::{Value as J, json};
use std::collections::{BTreeMap, BTreeSet};

#[derive(Default)]
pub struct Report {
    pub property: String,
    pub evaluations: u64,
    /// hashes of distinct non-trivial cases (by the stated rule)
    pub distinct: BTreeSet<u64>,
    pub rule: String,
    pub samples: Vec<J>,
    pub counters: BTreeMap<String, u64>,
    pub violations: Vec<Violation>,
    pub inconclusive: Vec<String>,
    pub notes: Vec<String>,
}

pub struct Violation {
    /// stable signature used by the known-findings filter
    pub sig: String,
    pub detail: String,
    /// replayable witness text
    pub replay: String,
}

impl Report {
    pub fn new(property: &str, rule: &str) -> Self {
        Report { property: property.into(), rule: rule.into(), ..Default::default() }
    }
    pub fn count(&mut self, k: &str, n: u64) {
        *self.counters.entry(k.to_string()).or_insert(0) += n;
    }
    pub fn nontrivial(&mut self, key: &str) {
        self.distinct.insert(crate::dump::fnv(key));
    }
    pub fn sample(&mut self, j: J) {
        if self.samples.len() < 3 {
            self.samples.push(j);
        }
    }
    pub fn violation(&mut self, sig: &str, detail: &str, replay: &str) {
        if self.violations.len() < 50 {
            self.violations.push(Violation { sig: sig.into(), detail: detail.into(), replay: replay.into() });
        }
        self.count("violations_total", 1);
    }
    pub fn inconclusive(&mut self, why: &str) {
        if self.inconclusive.len() < 50 {
            self.inconclusive.push(why.into());
        }
        self.count("inconclusive_total", 1);
    }
    pub fn to_json(&self) -> J {
        json!({
            "property": self.property,
            "evaluations": self.evaluations,
            "distinct": self.distinct.iter().collect::<Vec<_>>(),
            "rule": self.rule,
            "samples": self.samples,
            "counters": self.counters,
            "violations": self.violations.iter().map(|v| json!({"sig": v.sig, "detail": v.detail, "replay": v.replay})).collect::<Vec<_>>(),
            "inconclusive": self.inconclusive,
            "notes": self.notes,
        })
    }
    pub fn write(&self, path: &str) {
        std::fs::write(path, serde_json::to_string_pretty(&self.to_json()).unwrap()).unwrap();
    }
}
