//! C12 — every provable fact gets a proof the checker accepts, and only those.
//!
//! Per generated (proof-supported) program, run on a plain and on a proofs e-graph:
//!  (a) for true and false facts over its terms, `(prove F)` on the proofs engine succeeds
//!      exactly when `(check F)` succeeds on the plain engine (no subsume is generated);
//!  (b) prove never panics;
//!  (c) the returned proof is accepted by the in-tree checker against the original program
//!      and passes an independent structural walk (Trans middle terms, Sym flip, Congr child
//!      index and rebuilt term) written against the public ProofStore API;
//!  (d) soundness probes: the in-tree checker must REJECT the same proof against a program
//!      from which a rule it names (or every command mentioning the constructor of a Fiat
//!      leaf) was removed, and must reject single-point alterations that are unjustified on
//!      syntactic grounds: swapped Trans operands with different end terms, a Congr child
//!      index pointing at a different argument, a dropped Rule premise, a Fiat leaf whose
//!      right-hand side was replaced by a different term of the proof.
use crate::dump;
use crate::model;
use crate::out::Report;
use crate::pgen::{self, Act, Cmd, Fact, GenCfg, T, Ty};
use crate::rng::Rng;
use crate::run::{self, Outcome};
use crate::Args;
use egglog::proof::{Justification, ProofId, ProofStore, VerifAlteration};
use egglog::{CommandOutput, EGraph, Term, TermId};
use serde_json::json;
use std::collections::{BTreeSet, HashMap};

/// Independent structural check of the axiomatic steps. Returns the first problem found.
fn structural(store: &ProofStore, root: ProofId) -> Result<(usize, BTreeSet<String>), String> {
    let mut td = store.term_dag().clone();
    let mut kinds = BTreeSet::new();
    let nodes = store.verif_nodes(root);
    for id in &nodes {
        let p = store.get(*id);
        match p.justification() {
            Justification::Trans(a, b) => {
                kinds.insert("Trans".to_string());
                let (pa, pb) = (store.get(*a), store.get(*b));
                if pa.rhs() != pb.lhs() {
                    return Err(format!("Trans step {id}: middle terms differ: {} vs {}", td.to_string(pa.rhs()), td.to_string(pb.lhs())));
                }
                if p.lhs() != pa.lhs() || p.rhs() != pb.rhs() {
                    return Err(format!("Trans step {id}: stated proposition is not lhs(left) = rhs(right)"));
                }
            }
            Justification::Sym(a) => {
                kinds.insert("Sym".to_string());
                let pa = store.get(*a);
                if p.lhs() != pa.rhs() || p.rhs() != pa.lhs() {
                    return Err(format!("Sym step {id}: stated proposition is not the flipped premise"));
                }
            }
            Justification::Congr { proof, child_index, child_proof } => {
                kinds.insert("Congr".to_string());
                let (pp, pc) = (store.get(*proof), store.get(*child_proof));
                let Term::App(head, args) = td.get(pp.rhs()).clone() else {
                    return Err(format!("Congr step {id}: right-hand side of the extended proof is not an application"));
                };
                if *child_index >= args.len() {
                    return Err(format!("Congr step {id}: child index {child_index} out of range ({} args)", args.len()));
                }
                if args[*child_index] != pc.lhs() {
                    return Err(format!("Congr step {id}: child proof starts at {} but argument {child_index} is {}", td.to_string(pc.lhs()), td.to_string(args[*child_index])));
                }
                let mut nargs = args.clone();
                nargs[*child_index] = pc.rhs();
                let expect = td.app(head, nargs);
                if p.lhs() != pp.lhs() || p.rhs() != expect {
                    return Err(format!("Congr step {id}: stated proposition {} = {} is not the congruence extension {} = {}", td.to_string(p.lhs()), td.to_string(p.rhs()), td.to_string(pp.lhs()), td.to_string(expect)));
                }
            }
            Justification::Fiat => {
                kinds.insert("Fiat".to_string());
            }
            Justification::Rule { .. } => {
                kinds.insert("Rule".to_string());
            }
            Justification::MergeFn { .. } => {
                kinds.insert("MergeFn".to_string());
            }
            Justification::ContainerNormalize { .. } => {
                kinds.insert("ContainerNormalize".to_string());
            }
            Justification::Eval => {
                kinds.insert("Eval".to_string());
            }
        }
    }
    Ok((nodes.len(), kinds))
}

fn root_symbol(td: &egglog::TermDag, t: TermId) -> Option<String> {
    match td.get(t) {
        Term::App(h, _) => Some(h.clone()),
        _ => None,
    }
}

pub fn run(a: &Args) -> Report {
    let mut rep = Report::new(
        "C12",
        "generated proof-supported programs (constructors, relations, lattice functions, rules, rewrites, unions, lets; no subsume/delete/containers) run on a plain and a proofs e-graph; for sampled true and false facts ((= t1 t2) over ground terms up to depth 2, relation facts, term existence) prove<=>check agreement; each returned proof is re-checked by the in-tree checker against the original program, walked by an independent structural checker, and then probed for soundness: program alterations (each named rule removed; every command mentioning a Fiat leaf's constructor removed) and proof alterations (Trans swap, Congr index, dropped premise, Fiat rhs) that are unjustified on syntactic grounds must be rejected. Non-trivial = proof with at least one Rule or Congr step; distinct by proof text.",
    );
    let n = a.cases(60, 2500);
    let root = Rng::new(a.seed);
    for case in 0..n {
        let mut rng = root.fork(case);
        let cfg = GenCfg { n_cmds: (8, 18), checks: false, schedules: false, i64_cols: rng.chance(1, 2), funcs: rng.chance(1, 2), ..Default::default() };
        let (sig, cmds) = pgen::gen_history(&mut rng, &cfg);
        let mut plain = EGraph::new(a.threads);
        let mut proofs = EGraph::new_with_proofs().with_num_threads(a.threads);
        let mut log: Vec<String> = vec![];
        let mut unsupported = false;
        for c in &cmds {
            if matches!(c, Cmd::Act(Act::Expr(T::Var(_)))) {
                continue;
            }
            let text = c.to_string();
            if run::skip_run_on_large_db(&plain, &text) {
                continue;
            }
            let o1 = run::run(&mut plain, &text);
            let o2 = run::run(&mut proofs, &text);
            match (&o1, &o2) {
                (Outcome::Ok(_), Outcome::Ok(_)) => log.push(text),
                (_, Outcome::Err(e)) if e.contains("not support") || e.contains("Unsupported") || e.contains("unsupported") => {
                    unsupported = true;
                    break;
                }
                (Outcome::Err(_), Outcome::Err(_)) => {} // e.g. duplicate rule: no effect on either
                (_, Outcome::Panic(p)) | (Outcome::Panic(p), _) => {
                    rep.inconclusive(&format!("panic while running the program (C09/C11's business): {p}"));
                    unsupported = true;
                    break;
                }
                _ => {
                    // a divergence between the engines on an ordinary command is C11's business
                    rep.count("programs_diverging_before_prove", 1);
                    unsupported = true;
                    break;
                }
            }
            if plain.num_tuples() > 400 {
                break;
            }
        }
        if unsupported {
            rep.count("programs_unsupported_or_diverging", 1);
            continue;
        }
        rep.evaluations += 1;
        // facts
        let mut facts: Vec<String> = vec![];
        for s in 0..sig.sorts.len() {
            let pool = model::ground_terms(&sig, s, 2, 30);
            if pool.is_empty() {
                continue;
            }
            for _ in 0..4 {
                let (t1, t2) = (rng.pick(&pool).clone(), rng.pick(&pool).clone());
                facts.push(Fact::Eq(t1, t2).to_string());
            }
            facts.push(rng.pick(&pool).to_string());
        }
        // terms that certainly exist: the ones the program inserted
        for c in &cmds {
            if let Cmd::Act(Act::Expr(t @ T::App(..))) = c {
                if rng.chance(1, 3) {
                    facts.push(t.to_string());
                }
            }
            if let Cmd::Act(Act::Union(x, y)) = c {
                if rng.chance(1, 2) {
                    facts.push(Fact::Eq(x.clone(), y.clone()).to_string());
                }
            }
        }
        let g = pgen::Gen::new(&sig, &cfg);
        for _ in 0..2 {
            let r = rng.pick(&sig.rels);
            let args: Vec<T> = r.args.iter().map(|x| g.gd(&mut rng, x, 0, 2)).collect();
            facts.push(T::App(r.name.clone(), args).to_string());
        }
        let _ = Ty::I64;
        let program = log.join("\n");
        for f in facts {
            if f.contains('$') {
                continue; // globals are removed from proofs; keep facts global-free
            }
            let want = match run::check(&mut plain.clone(), &f) {
                Ok(b) => b,
                Err(_) => continue,
            };
            let mut pe = proofs.clone();
            let res = run::run_raw(&mut pe, &format!("(prove {f})"));
            rep.count("facts", 1);
            if want {
                rep.count("facts_true", 1);
            }
            let replay = format!("{program}\n(prove {f})");
            match res {
                Err(Outcome::Panic(p)) => {
                    // one recorded class of panics has a stable signature (known finding
                    // F-C12-function-fact-after-union); any other panic is keyed by its input
                    let sig = if p.contains("function fact mismatch - expected reflexive equality") { "C12:prove-panic:function-fact-mismatch".to_string() } else { format!("C12:panic:{}", dump::fnv(&replay)) };
                    rep.violation(&sig, &format!("(prove {f}) panicked: {p} (plain check says {want})"), &replay);
                    continue;
                }
                Err(Outcome::Err(e)) => {
                    if want {
                        rep.violation(&format!("C12:missing:{}", dump::fnv(&replay)), &format!("(check {f}) succeeds on the plain engine but (prove {f}) fails: {}", e.replace('\n', " // ")), &replay);
                    }
                    continue;
                }
                Err(Outcome::Ok(_)) => continue,
                Ok(outs) => {
                    if !want {
                        rep.violation(&format!("C12:spurious:{}", dump::fnv(&replay)), &format!("(prove {f}) succeeds although (check {f}) fails on the plain engine"), &replay);
                        continue;
                    }
                    let Some((mut store, pid)) = outs.into_iter().find_map(|o| match o {
                        CommandOutput::ProveExists { proof_store, proof_id } => Some((proof_store, proof_id)),
                        _ => None,
                    }) else {
                        rep.inconclusive("prove returned no proof object");
                        continue;
                    };
                    rep.count("proofs", 1);
                    // (c) in-tree checker on the unchanged proof and program
                    if let Err(e) = pe.verif_check_proof(&mut store, pid, &[]) {
                        rep.violation(&format!("C12:selfreject:{}", dump::fnv(&replay)), &format!("the proof returned for {f} is rejected by the checker against the original program: {e}"), &replay);
                        continue;
                    }
                    let (nnodes, kinds) = match structural(&store, pid) {
                        Ok(x) => x,
                        Err(why) => {
                            rep.violation(&format!("C12:structure:{}", dump::fnv(&replay)), &format!("the proof returned for {f} fails the independent structural check: {why}"), &replay);
                            continue;
                        }
                    };
                    rep.count("proof_nodes", nnodes as u64);
                    for k in &kinds {
                        rep.count(&format!("proofs_with_{k}"), 1);
                    }
                    if kinds.contains("Rule") || kinds.contains("Congr") {
                        rep.nontrivial(&store.proof_to_string(pid));
                    }
                    // (d) soundness probes
                    let prog = pe.verif_proof_check_program();
                    let nodes = store.verif_nodes(pid);
                    let mut rule_names: BTreeSet<String> = BTreeSet::new();
                    let mut fiat_ctors: BTreeSet<String> = BTreeSet::new();
                    let mut terms: Vec<TermId> = vec![];
                    for id in &nodes {
                        let p = store.get(*id);
                        terms.push(p.lhs());
                        terms.push(p.rhs());
                        match p.justification() {
                            Justification::Rule { name, .. } => {
                                rule_names.insert(name.clone());
                            }
                            Justification::Fiat => {
                                if let Some(h) = root_symbol(store.term_dag(), p.lhs()) {
                                    fiat_ctors.insert(h);
                                }
                            }
                            _ => {}
                        }
                    }
                    for name in &rule_names {
                        let drop: Vec<usize> = prog.iter().enumerate().filter(|(_, c)| (c.starts_with("(rule") || c.starts_with("(rewrite") || c.starts_with("(birewrite")) && c.contains(name.as_str())).map(|(i, _)| i).collect();
                        if drop.is_empty() {
                            rep.count("rule_not_located_in_program", 1);
                            continue;
                        }
                        rep.count("probes_rule_removed", 1);
                        if pe.verif_check_proof(&mut store, pid, &drop).is_ok() {
                            rep.violation(&format!("C12:sound-rule:{}", dump::fnv(&replay)), &format!("the checker accepts the proof of {f} against a program from which the rule it uses ({}) was removed", name.chars().take(120).collect::<String>()), &replay);
                        }
                    }
                    for ctor in &fiat_ctors {
                        let tok = |c: &str| c.contains(&format!("({ctor} ")) || c.contains(&format!("({ctor})"));
                        let is_decl = |c: &str| c.starts_with("(constructor") || c.starts_with("(sort") || c.starts_with("(function") || c.starts_with("(relation") || c.starts_with("(ruleset") || c.starts_with("(datatype");
                        let drop: Vec<usize> = prog.iter().enumerate().filter(|(_, c)| !is_decl(c) && tok(c)).map(|(i, _)| i).collect();
                        if drop.is_empty() {
                            continue;
                        }
                        rep.count("probes_fact_removed", 1);
                        if pe.verif_check_proof(&mut store, pid, &drop).is_ok() {
                            rep.violation(&format!("C12:sound-fact:{}", dump::fnv(&replay)), &format!("the checker accepts the proof of {f} against a program from which every action and rule mentioning ({ctor} ..), the head of one of its Fiat leaves, was removed"), &replay);
                        }
                    }
                    // proof alterations
                    let mut tried = 0;
                    for id in &nodes {
                        if tried >= 12 {
                            break;
                        }
                        let p = store.get(*id).clone();
                        let mut alts: Vec<(VerifAlteration, &str)> = vec![];
                        match p.justification() {
                            Justification::Trans(x, y) => {
                                let (px, py) = (store.get(*x), store.get(*y));
                                // swapped: needs rhs(y) == lhs(x) to chain; otherwise unjustified
                                if py.rhs() != px.lhs() {
                                    alts.push((VerifAlteration::SwapTrans, "Trans operands swapped (end terms differ, so the swapped steps do not chain)"));
                                }
                            }
                            Justification::Congr { proof, child_index, child_proof } => {
                                let (pp, pc) = (store.get(*proof), store.get(*child_proof));
                                if let Term::App(_, args) = store.term_dag().get(pp.rhs()).clone() {
                                    for j in 0..=args.len() {
                                        if j != *child_index && (j == args.len() || args[j] != pc.lhs()) {
                                            alts.push((VerifAlteration::CongrIndex(j), "Congr child index points at an argument the child proof does not start from"));
                                            break;
                                        }
                                    }
                                }
                            }
                            Justification::Rule { premise_proofs, .. } => {
                                if !premise_proofs.is_empty() {
                                    alts.push((VerifAlteration::DropPremise(rng.below(premise_proofs.len())), "one premise of a Rule step dropped"));
                                }
                            }
                            Justification::Fiat => {
                                // a term of the proof whose head constructor builds a DIFFERENT sort: an
                                // ill-sorted equation cannot be justified by any top-level action
                                let sort_of = |t: TermId| -> Option<String> {
                                    let h = root_symbol(store.term_dag(), t)?;
                                    sig.ctors.iter().find(|c| c.name == h).map(|c| sig.sorts[c.out].clone()).or_else(|| sig.rels.iter().find(|r| r.name == h).map(|r| format!("@{}", r.name)))
                                };
                                if let Some(ls) = sort_of(p.lhs()) {
                                    if let Some(t) = terms.iter().find(|t| sort_of(**t).map(|s| s != ls).unwrap_or(false)) {
                                        alts.push((VerifAlteration::FiatRhs(*t), "a Fiat leaf's right-hand side replaced by a term of another sort"));
                                    }
                                }
                            }
                            _ => {}
                        }
                        for (alt, what) in alts {
                            let Some(mutated) = store.verif_alter(pid, *id, &alt) else { continue };
                            tried += 1;
                            rep.count("probes_proof_altered", 1);
                            rep.count(&format!("probe_{}", format!("{alt:?}").split('(').next().unwrap()), 1);
                            // a semantically neutral alteration would still pass my structural walk; only
                            // alterations the walk rejects (or that change a premise count) are judged
                            let neutral = structural(&store, mutated).is_ok() && !matches!(alt, VerifAlteration::DropPremise(_) | VerifAlteration::FiatRhs(_));
                            if neutral {
                                rep.count("probes_neutral_discarded", 1);
                                continue;
                            }
                            if pe.verif_check_proof(&mut store, mutated, &[]).is_ok() {
                                rep.violation(
                                    &format!("C12:sound-proof:{}", dump::fnv(&format!("{replay}{alt:?}"))),
                                    &format!("the checker accepts an altered proof of {f}: {what} at node {id}"),
                                    &replay,
                                );
                            }
                        }
                    }
                    if case < 3 && rep.samples.len() < 3 {
                        rep.sample(json!({"program": log, "fact": f, "proof": store.proof_to_string(pid).chars().take(1500).collect::<String>()}));
                    }
                }
            }
        }
        let _: HashMap<u8, u8> = HashMap::new();
    }
    // known-finding witnesses
    if let Some(dir) = a.get("witness-dir") {
        if let Ok(rd) = std::fs::read_dir(dir) {
            for f in rd.filter_map(|e| e.ok()).map(|e| e.path()).filter(|p| p.extension().map(|x| x == "egg").unwrap_or(false)) {
                let text = std::fs::read_to_string(&f).unwrap();
                let mut eg = EGraph::new_with_proofs();
                rep.count("witness_programs", 1);
                for c in crate::exec::split_toplevel(&text) {
                    if let Outcome::Panic(p) = run::run(&mut eg, &c) {
                        let stem = f.file_stem().unwrap().to_string_lossy().to_string();
                        rep.violation(&format!("C12:witness:{stem}"), &format!("`{c}` panicked: {p}"), &text);
                    }
                }
            }
        }
    }
    rep
}
