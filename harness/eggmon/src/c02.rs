//! C02 — a rule run fires for exactly the set of matches of its body.
//!
//! Oracle: an independent hash-join evaluator over the engine's own dump of the
//! database taken BEFORE the run. Every rule's head is `(OutK v0 .. vn)` over all of
//! its variables, so after `(run rs 1)` the Out relation must hold exactly
//! Out_before ∪ matches(body, DB_before) — no match missing, none invented, subsumed
//! rows excluded. The same rules are run three times with the database changed in
//! between (tables grown, unions, deletions, subsumptions) because plans are compiled
//! once from the sizes seen first and re-instantiated later; every rule is declared
//! with and without `:no-decomp` (and the global no_decomp flag is flipped per case),
//! all variants must satisfy the same oracle.
use crate::dump::{self, Dump, V};
use crate::out::Report;
use crate::rng::Rng;
use crate::run::{self, Outcome};
use crate::Args;
use egglog::EGraph;
use serde_json::json;
use std::collections::{BTreeSet, HashMap};

#[derive(Clone, Copy, Debug, PartialEq, Eq, Hash)]
enum Ty {
    S,
    I,
}

#[derive(Clone, Debug)]
struct Tab {
    name: &'static str,
    cols: &'static [Ty],
    /// None: relation; Some(S): constructor; Some(I): function
    out: Option<Ty>,
}

const TABS: &[Tab] = &[
    Tab { name: "R0", cols: &[Ty::S, Ty::S], out: None },
    Tab { name: "R1", cols: &[Ty::S, Ty::S], out: None },
    Tab { name: "R2", cols: &[Ty::S, Ty::S, Ty::S], out: None },
    Tab { name: "R3", cols: &[Ty::S, Ty::I], out: None },
    Tab { name: "R4", cols: &[Ty::I, Ty::S, Ty::S], out: None },
    Tab { name: "R5", cols: &[Ty::S], out: None },
    Tab { name: "F", cols: &[Ty::S], out: Some(Ty::S) },
    Tab { name: "G", cols: &[Ty::S, Ty::S], out: Some(Ty::S) },
    Tab { name: "f", cols: &[Ty::S], out: Some(Ty::I) },
    Tab { name: "g", cols: &[Ty::S, Ty::S], out: Some(Ty::I) },
    Tab { name: "N", cols: &[Ty::I], out: Some(Ty::S) },
];
const N_TAB: usize = 10;

const PRELUDE: &str = "(sort S)\n(constructor N (i64) S)\n(constructor F (S) S)\n(constructor G (S S) S)\n(relation R0 (S S))\n(relation R1 (S S))\n(relation R2 (S S S))\n(relation R3 (S i64))\n(relation R4 (i64 S S))\n(relation R5 (S))\n(function f (S) i64 :merge (min old new))\n(function g (S S) i64 :merge (max old new))\n(ruleset q)";

#[derive(Clone, Debug, PartialEq, Eq, Hash)]
enum P {
    Var(usize),
    /// the constant term (N k)
    ConstS(i64),
    ConstI(i64),
}

#[derive(Clone, Debug)]
struct AtomP {
    tab: usize,
    args: Vec<P>,
    out: Option<P>,
}

#[derive(Clone, Debug)]
enum Guard {
    Lt(usize, i64),
    NeC(usize, i64),
    Le(usize, usize),
    NeV(usize, usize),
    /// v0 = v1 + v2 (binds v0)
    Plus(usize, usize, usize),
}

#[derive(Clone, Debug)]
struct Body {
    shape: &'static str,
    var_ty: Vec<Ty>,
    atoms: Vec<AtomP>,
    guards: Vec<Guard>,
}

impl Body {
    fn new_var(&mut self, t: Ty) -> usize {
        self.var_ty.push(t);
        self.var_ty.len() - 1
    }
    fn ptext(&self, p: &P) -> String {
        match p {
            P::Var(i) => format!("x{i}"),
            P::ConstS(k) => format!("(N {k})"),
            P::ConstI(k) => k.to_string(),
        }
    }
    fn facts(&self) -> Vec<String> {
        let mut v = vec![];
        for a in &self.atoms {
            let t = &TABS[a.tab];
            let args: Vec<String> = a.args.iter().map(|p| self.ptext(p)).collect();
            let app = format!("({} {})", t.name, args.join(" "));
            match &a.out {
                Some(o) => v.push(format!("(= {} {app})", self.ptext(o))),
                None => v.push(app),
            }
        }
        for g in &self.guards {
            v.push(match g {
                Guard::Lt(a, c) => format!("(< x{a} {c})"),
                Guard::NeC(a, c) => format!("(!= x{a} {c})"),
                Guard::Le(a, b) => format!("(<= x{a} x{b})"),
                Guard::NeV(a, b) => format!("(!= x{a} x{b})"),
                Guard::Plus(k, a, b) => format!("(= x{k} (+ x{a} x{b}))"),
            });
        }
        v
    }
}

/// Connect two S-variables by one atom (an "edge" of the query hypergraph).
fn edge(b: &mut Body, rng: &mut Rng, x: usize, y: usize) {
    match rng.weighted(&[2, 2, 3, 1, 1, 1, 1]) {
        0 | 1 => b.atoms.push(AtomP { tab: rng.below(2), args: vec![P::Var(x), P::Var(y)], out: None }),
        2 => {
            // ternary relation, third position fresh / reused / constant
            let z = third(b, rng);
            let mut args = vec![P::Var(x), P::Var(y), z];
            if rng.chance(1, 3) {
                args.swap(1, 2);
            }
            b.atoms.push(AtomP { tab: 2, args, out: None });
        }
        3 => b.atoms.push(AtomP { tab: 6, args: vec![P::Var(x)], out: Some(P::Var(y)) }),
        4 => {
            let z = third(b, rng);
            b.atoms.push(AtomP { tab: 7, args: vec![P::Var(x), P::Var(y)], out: Some(z) });
        }
        5 => {
            // R4 (i64 S S)
            let i = if rng.chance(1, 4) { P::ConstI(rng.range(0, 3)) } else { P::Var(b.new_var(Ty::I)) };
            b.atoms.push(AtomP { tab: 4, args: vec![i, P::Var(x), P::Var(y)], out: None });
        }
        _ => {
            // g (S S) -> i64
            let i = P::Var(b.new_var(Ty::I));
            b.atoms.push(AtomP { tab: 9, args: vec![P::Var(x), P::Var(y)], out: Some(i) });
        }
    }
}

fn third(b: &mut Body, rng: &mut Rng) -> P {
    let svars: Vec<usize> = (0..b.var_ty.len()).filter(|i| b.var_ty[*i] == Ty::S).collect();
    match rng.below(6) {
        0 if !svars.is_empty() => P::Var(*rng.pick(&svars)),
        1 => P::ConstS(rng.range(0, 5)),
        _ => P::Var(b.new_var(Ty::S)),
    }
}

fn gen_body(rng: &mut Rng) -> Body {
    let shapes = ["chain", "star", "triangle", "cycle4", "cycle5", "clique4", "lollipop", "product", "random", "single", "pair", "bowtie", "bowtie", "bowtie", "cactus", "cactus"];
    let shape = *rng.pick(&shapes);
    let mut b = Body { shape, var_ty: vec![], atoms: vec![], guards: vec![] };
    let sv = |b: &mut Body, n: usize| -> Vec<usize> { (0..n).map(|_| b.new_var(Ty::S)).collect() };
    match shape {
        "chain" => {
            let n = 3 + rng.below(4);
            let v = sv(&mut b, n);
            for i in 0..n - 1 {
                edge(&mut b, rng, v[i], v[i + 1]);
            }
        }
        "star" => {
            let n = 3 + rng.below(4);
            let v = sv(&mut b, n);
            for i in 1..n {
                if rng.chance(1, 2) {
                    edge(&mut b, rng, v[0], v[i]);
                } else {
                    edge(&mut b, rng, v[i], v[0]);
                }
            }
        }
        "triangle" | "cycle4" | "cycle5" => {
            let n = match shape {
                "triangle" => 3,
                "cycle4" => 4,
                _ => 5,
            };
            let v = sv(&mut b, n);
            for i in 0..n {
                edge(&mut b, rng, v[i], v[(i + 1) % n]);
            }
        }
        "clique4" => {
            let v = sv(&mut b, 4);
            for i in 0..4 {
                for j in (i + 1)..4 {
                    edge(&mut b, rng, v[i], v[j]);
                }
            }
        }
        "lollipop" => {
            let v = sv(&mut b, 5);
            for i in 0..3 {
                edge(&mut b, rng, v[i], v[(i + 1) % 3]);
            }
            edge(&mut b, rng, v[2], v[3]);
            edge(&mut b, rng, v[3], v[4]);
        }
        "bowtie" => {
            // two cycles (3 or 4 long) sharing one variable: decomposes into two non-ear bags
            let (n1, n2) = (3 + rng.below(2), 3 + rng.below(2));
            let v = sv(&mut b, n1 + n2 - 1);
            for i in 0..n1 {
                edge(&mut b, rng, v[i], v[(i + 1) % n1]);
            }
            let second: Vec<usize> = std::iter::once(v[0]).chain(v[n1..].iter().copied()).collect();
            for i in 0..n2 {
                edge(&mut b, rng, second[i], second[(i + 1) % n2]);
            }
        }
        "cactus" => {
            // triangles chained through different shared variables
            let v = sv(&mut b, 5 + 2 * rng.below(2));
            let mut i = 0;
            while i + 2 < v.len() {
                edge(&mut b, rng, v[i], v[i + 1]);
                edge(&mut b, rng, v[i + 1], v[i + 2]);
                edge(&mut b, rng, v[i + 2], v[i]);
                i += 2;
            }
        }
        "product" => {
            let v = sv(&mut b, 4);
            edge(&mut b, rng, v[0], v[1]);
            edge(&mut b, rng, v[2], v[3]);
            if rng.chance(1, 2) {
                let w = b.new_var(Ty::S);
                b.atoms.push(AtomP { tab: 5, args: vec![P::Var(w)], out: None });
            }
        }
        "single" => {
            let v = sv(&mut b, 2);
            edge(&mut b, rng, v[0], v[1]);
        }
        "pair" => {
            let v = sv(&mut b, 3);
            edge(&mut b, rng, v[0], v[1]);
            edge(&mut b, rng, v[1], v[2]);
        }
        _ => {
            let n = 2 + rng.below(5);
            let v = sv(&mut b, 2 + rng.below(4));
            for _ in 0..n {
                let x = *rng.pick(&v);
                let y = *rng.pick(&v); // x == y gives a repeated variable inside one atom
                edge(&mut b, rng, x, y);
            }
        }
    }
    // decorations
    let svars = |b: &Body| -> Vec<usize> { (0..b.var_ty.len()).filter(|i| b.var_ty[*i] == Ty::S).collect() };
    if rng.chance(1, 3) {
        // unary filter / i64 column / function atom on an existing variable
        let x = *rng.pick(&svars(&b));
        match rng.below(3) {
            0 => b.atoms.push(AtomP { tab: 5, args: vec![P::Var(x)], out: None }),
            1 => {
                let i = if rng.chance(1, 3) { P::ConstI(rng.range(0, 3)) } else { P::Var(b.new_var(Ty::I)) };
                b.atoms.push(AtomP { tab: 3, args: vec![P::Var(x), i], out: None });
            }
            _ => {
                let i = if rng.chance(1, 4) { P::ConstI(rng.range(0, 3)) } else { P::Var(b.new_var(Ty::I)) };
                b.atoms.push(AtomP { tab: 8, args: vec![P::Var(x)], out: Some(i) });
            }
        }
    }
    if rng.chance(1, 5) {
        // a constant in place of a variable: (= x (N k))
        let x = *rng.pick(&svars(&b));
        b.atoms.push(AtomP { tab: N_TAB, args: vec![P::ConstI(rng.range(0, 5))], out: Some(P::Var(x)) });
    }
    if rng.chance(1, 6) {
        // duplicate atom
        let a = rng.pick(&b.atoms).clone();
        b.atoms.push(a);
    }
    if rng.chance(1, 6) {
        // leaf value exposed: (= x (N i))
        let x = *rng.pick(&svars(&b));
        let i = b.new_var(Ty::I);
        b.atoms.push(AtomP { tab: N_TAB, args: vec![P::Var(i)], out: Some(P::Var(x)) });
    }
    let ivars: Vec<usize> = (0..b.var_ty.len()).filter(|i| b.var_ty[*i] == Ty::I).collect();
    if !ivars.is_empty() && rng.chance(1, 2) {
        let a = *rng.pick(&ivars);
        let c = *rng.pick(&ivars);
        let g = match rng.below(5) {
            0 => Guard::Lt(a, rng.range(1, 4)),
            1 => Guard::NeC(a, rng.range(0, 3)),
            2 => Guard::Le(a, c),
            3 if a != c => Guard::NeV(a, c),
            _ => {
                let k = b.new_var(Ty::I);
                Guard::Plus(k, a, c)
            }
        };
        b.guards.push(g);
    }
    if rng.chance(1, 8) {
        let s = svars(&b);
        let (x, y) = (*rng.pick(&s), *rng.pick(&s));
        if x != y {
            b.guards.push(Guard::NeV(x, y));
        }
    }
    // every variable must be bound by some atom
    for v in 0..b.var_ty.len() {
        let used = b.atoms.iter().any(|a| a.args.contains(&P::Var(v)) || a.out == Some(P::Var(v))) || b.guards.iter().any(|g| matches!(g, Guard::Plus(k, _, _) if *k == v));
        if !used {
            match b.var_ty[v] {
                Ty::S => b.atoms.push(AtomP { tab: 5, args: vec![P::Var(v)], out: None }),
                Ty::I => {
                    let x = b.new_var(Ty::S);
                    b.atoms.push(AtomP { tab: 3, args: vec![P::Var(x), P::Var(v)], out: None });
                }
            }
        }
    }
    rng.shuffle(&mut b.atoms);
    b
}

// ------------------------------------------------------------------ oracle

#[derive(Clone, Copy, Debug, PartialEq, Eq, Hash, PartialOrd, Ord)]
enum Val {
    Id(u32),
    Int(i64),
}

fn val_of(v: &V) -> Option<Val> {
    match v {
        V::Id(_, _, c) => Some(Val::Id(*c)),
        V::Base(b) => b.parse::<i64>().ok().map(Val::Int),
        V::Cont(..) => None,
    }
}

/// rows of every table: args ++ [out], subsumed rows dropped
fn db_of(d: &Dump) -> HashMap<String, Vec<Vec<Val>>> {
    let mut m = HashMap::new();
    for t in &d.tables {
        let rows: Vec<Vec<Val>> = t.rows.iter().filter(|r| !r.subsumed).filter_map(|r| r.vals.iter().map(val_of).collect::<Option<Vec<Val>>>()).collect();
        m.insert(t.name.clone(), rows);
    }
    m
}

/// All satisfying assignments of the body's variables (set), by hash joins in the atoms' order.
fn evaluate(b: &Body, db: &HashMap<String, Vec<Vec<Val>>>, cap: usize) -> Option<BTreeSet<Vec<Val>>> {
    let nv = b.var_ty.len();
    // constants (N k) inside patterns become one more atom with a fresh variable
    let mut atoms: Vec<(usize, Vec<P>)> = vec![]; // full positions incl. output
    let mut extra = nv;
    let mut lower = |p: &P, atoms: &mut Vec<(usize, Vec<P>)>, extra: &mut usize| -> P {
        if let P::ConstS(k) = p {
            let v = *extra;
            *extra += 1;
            atoms.push((N_TAB, vec![P::ConstI(*k), P::Var(v)]));
            P::Var(v)
        } else {
            p.clone()
        }
    };
    for a in &b.atoms {
        let mut pos: Vec<P> = a.args.iter().map(|p| lower(p, &mut atoms, &mut extra)).collect();
        match (&a.out, TABS[a.tab].out) {
            (Some(o), _) => pos.push(lower(o, &mut atoms, &mut extra)),
            (None, _) => {
                let v = extra;
                extra += 1;
                pos.push(P::Var(v)); // relation output id: unconstrained
            }
        }
        atoms.push((a.tab, pos));
    }
    let mut envs: Vec<Vec<Option<Val>>> = vec![vec![None; extra]];
    for (tab, pos) in &atoms {
        let empty = vec![];
        let rows = db.get(TABS[*tab].name).unwrap_or(&empty);
        // positions bound in every env at this point (same for all envs: variables bind in lock-step)
        let probe = &envs[0];
        let bound: Vec<usize> = (0..pos.len())
            .filter(|i| match &pos[*i] {
                P::Var(v) => probe[*v].is_some(),
                _ => true,
            })
            .collect();
        let mut index: HashMap<Vec<Val>, Vec<usize>> = HashMap::new();
        for (ri, r) in rows.iter().enumerate() {
            if r.len() != pos.len() {
                return None;
            }
            index.entry(bound.iter().map(|i| r[*i]).collect()).or_default().push(ri);
        }
        let mut next = vec![];
        for e in &envs {
            let key: Vec<Val> = bound
                .iter()
                .map(|i| match &pos[*i] {
                    P::Var(v) => e[*v].unwrap(),
                    P::ConstI(k) => Val::Int(*k),
                    P::ConstS(_) => unreachable!(),
                })
                .collect();
            if let Some(cands) = index.get(&key) {
                'cand: for ri in cands {
                    let r = &rows[*ri];
                    let mut e2 = e.clone();
                    for (i, p) in pos.iter().enumerate() {
                        if let P::Var(v) = p {
                            match e2[*v] {
                                Some(cur) => {
                                    if cur != r[i] {
                                        continue 'cand;
                                    }
                                }
                                None => e2[*v] = Some(r[i]),
                            }
                        }
                    }
                    next.push(e2);
                    if next.len() > cap {
                        return None;
                    }
                }
            }
        }
        envs = next;
        if envs.is_empty() {
            return Some(BTreeSet::new());
        }
    }
    let mut out = BTreeSet::new();
    'env: for mut e in envs {
        for g in &b.guards {
            let int = |e: &Vec<Option<Val>>, v: usize| match e[v] {
                Some(Val::Int(i)) => Some(i),
                _ => None,
            };
            let ok = match g {
                Guard::Lt(a, c) => int(&e, *a).map(|x| x < *c),
                Guard::NeC(a, c) => int(&e, *a).map(|x| x != *c),
                Guard::Le(a, c) => int(&e, *a).zip(int(&e, *c)).map(|(x, y)| x <= y),
                Guard::NeV(a, c) => e[*a].zip(e[*c]).map(|(x, y)| x != y),
                Guard::Plus(k, a, c) => {
                    let s = int(&e, *a).zip(int(&e, *c)).and_then(|(x, y)| x.checked_add(y));
                    match s {
                        Some(s) => {
                            e[*k] = Some(Val::Int(s));
                            Some(true)
                        }
                        None => None,
                    }
                }
            };
            match ok {
                Some(true) => {}
                Some(false) => continue 'env,
                None => return None,
            }
        }
        let row: Option<Vec<Val>> = e[..nv].iter().copied().collect();
        out.insert(row?);
    }
    Some(out)
}

// ------------------------------------------------------------------ database generator

fn nterm(k: usize) -> String {
    format!("(N {k})")
}

fn gen_rows(rng: &mut Rng, dom: usize, out: &mut Vec<String>, scale: usize, only: Option<usize>, small: bool) {
    let big_sizes = [0usize, 1, 5, 12, 31, 32, 33, 60, 100, 100, 200, 400];
    let small_sizes = [0usize, 1, 3, 5, 8, 12, 20, 31, 32, 33, 40, 60];
    let sizes: &[usize] = if small { &small_sizes } else { &big_sizes };
    for (ti, t) in TABS.iter().enumerate() {
        if ti == N_TAB {
            continue;
        }
        if let Some(o) = only {
            if o != ti {
                continue;
            }
        }
        let n = (*rng.pick(sizes)).min(if t.cols.len() == 1 { dom } else { 400 }) * scale;
        let ncols = t.cols.len() + t.out.is_some() as usize;
        if ncols >= 2 && t.out.is_none() && !small && rng.chance(1, 5) {
            // contiguous runs: per key a block of 17..40 consecutive rows that share the key (and, for
            // wider tables, one more column whose value recurs under several keys) and differ in the
            // last column
            let nkeys = 2 + rng.below(4);
            let shared = rng.below(dom);
            for _ in 0..nkeys {
                let key = rng.below(dom);
                let len = 17 + rng.below(24);
                for j in 0..len {
                    let mut vals: Vec<String> = vec![];
                    let all: Vec<Ty> = t.cols.iter().copied().chain(t.out).collect();
                    for (ci, c) in all.iter().enumerate() {
                        let x = if ci == 0 { key } else if ci + 1 == all.len() { 1000 + j } else { shared };
                        vals.push(match c {
                            Ty::S => nterm(x),
                            Ty::I => (x % 1000).to_string(),
                        });
                    }
                    match t.out {
                        Some(Ty::I) => {
                            let v = vals.pop().unwrap();
                            out.push(format!("(set ({} {}) {v})", t.name, vals.join(" ")));
                        }
                        Some(Ty::S) => {
                            // constructor: the output is whatever id the term gets; union it with the wanted leaf
                            let v = vals.pop().unwrap();
                            out.push(format!("(union ({} {}) {v})", t.name, vals.join(" ")));
                        }
                        None => out.push(format!("({} {})", t.name, vals.join(" "))),
                    }
                }
            }
            continue;
        }
        let skew = rng.below(3);
        let heavy = rng.below(dom);
        for _ in 0..n {
            let mut args = vec![];
            for (ci, c) in t.cols.iter().enumerate() {
                args.push(match c {
                    Ty::S => {
                        let k = match skew {
                            1 if rng.chance(1, 2) => heavy,
                            2 if ci == 0 => rng.below(dom.min(3)),
                            _ => rng.below(dom),
                        };
                        nterm(k)
                    }
                    Ty::I => rng.range(0, 4).to_string(),
                });
            }
            match t.out {
                Some(Ty::I) => out.push(format!("(set ({} {}) {})", t.name, args.join(" "), rng.range(0, 5))),
                _ => out.push(format!("({} {})", t.name, args.join(" "))),
            }
        }
    }
}

/// Planted solutions: rows that make every atom of the body true under a few random assignments,
/// so that bodies of any shape have matches; an atom with a variable that occurs nowhere else may be
/// expanded into a contiguous run of rows that differ only in that variable (several assignments
/// then share the other columns' values: large same-value groups under several keys).
fn plant(b: &Body, rng: &mut Rng, dom: usize, out: &mut Vec<String>) {
    let occurrences = |v: usize| -> usize {
        b.atoms.iter().map(|a| a.args.iter().filter(|p| **p == P::Var(v)).count() + (a.out == Some(P::Var(v))) as usize).sum::<usize>()
            + b.guards.iter().map(|g| match g {
                Guard::Lt(x, _) | Guard::NeC(x, _) => (*x == v) as usize,
                Guard::Le(x, y) | Guard::NeV(x, y) => (*x == v) as usize + (*y == v) as usize,
                Guard::Plus(k, x, y) => (*k == v) as usize + (*x == v) as usize + (*y == v) as usize,
            }).sum::<usize>()
    };
    let small = dom.min(4);
    // half of the time the planted values come from a pool disjoint from the noise rows, so that the
    // rows of one key are exactly one contiguous block
    let disjoint = rng.chance(1, 2);
    let pool: Vec<usize> = if disjoint { (0..2 + rng.below(2)).map(|i| 5000 + i).collect() } else { (0..small).collect() };
    let nplant = 2 + rng.below(4);
    let mut fresh = 3000usize;
    let mut blocks: Vec<Vec<String>> = vec![vec![]; b.atoms.len()];
    for _ in 0..nplant {
        // assignment: var -> term text
        let mut asg: Vec<Option<String>> = b.var_ty.iter().map(|t| match t {
            Ty::S => Some(nterm(*rng.pick(&pool))),
            Ty::I => Some(rng.range(0, 3).to_string()),
        }).collect();
        // constructor atoms define their output variable (no union needed), in body order
        let mut defined: Vec<bool> = vec![false; b.var_ty.len()];
        for (ai, a) in b.atoms.iter().enumerate() {
            let t = &TABS[a.tab];
            let val = |p: &P, asg: &Vec<Option<String>>| -> String {
                match p {
                    P::Var(v) => asg[*v].clone().unwrap(),
                    P::ConstS(k) => nterm(*k as usize),
                    P::ConstI(k) => k.to_string(),
                }
            };
            // a variable that occurs only here may vary over a run
            let free: Option<usize> = a.args.iter().filter_map(|p| if let P::Var(v) = p { Some(*v) } else { None }).find(|v| occurrences(*v) == 1);
            let run = match free {
                Some(_) if rng.chance(2, 3) => *rng.pick(&[3usize, 17, 20, 20, 33]),
                _ => 1,
            };
            for j in 0..run {
                let mut asg2 = asg.clone();
                if let (Some(v), true) = (free, run > 1) {
                    asg2[v] = Some(match b.var_ty[v] {
                        Ty::S => {
                            fresh += 1;
                            nterm(fresh)
                        }
                        Ty::I => (100 + j).to_string(),
                    });
                }
                let args: Vec<String> = a.args.iter().map(|p| val(p, &asg2)).collect();
                let app = format!("({} {})", t.name, args.join(" "));
                match (&a.out, t.out) {
                    (None, _) => blocks[ai].push(app),
                    (Some(P::Var(y)), Some(Ty::S)) if !defined[*y] && j == 0 && occurrences(*y) >= 1 => {
                        // y := the application itself
                        asg[*y] = Some(app.clone());
                        defined[*y] = true;
                        blocks[ai].push(app);
                    }
                    (Some(o), Some(Ty::S)) => blocks[ai].push(format!("(union {app} {})", val(o, &asg2))),
                    (Some(o), Some(Ty::I)) => blocks[ai].push(format!("(set {app} {})", val(o, &asg2))),
                    _ => {}
                }
            }
        }
    }
    // all rows of one atom's table contiguously
    for bl in blocks {
        out.extend(bl);
    }
}

struct Timing(u64, std::time::Instant);
impl Drop for Timing {
    fn drop(&mut self) {
        if std::env::var("VERIF_TIMING").is_ok() && self.1.elapsed().as_millis() > 1500 {
            eprintln!("case {} took {} ms", self.0, self.1.elapsed().as_millis());
        }
    }
}

struct RuleCase {
    body: Body,
    out_name: String,
}

fn out_rows(d: &Dump, name: &str) -> Option<BTreeSet<Vec<Val>>> {
    let t = d.tables.iter().find(|t| t.name == name)?;
    let mut s = BTreeSet::new();
    for r in &t.rows {
        let n = r.vals.len();
        s.insert(r.vals[..n - 1].iter().map(val_of).collect::<Option<Vec<Val>>>()?);
    }
    Some(s)
}

pub fn run(a: &Args) -> Report {
    let mut rep = Report::new(
        "C02",
        "conjunctive rule bodies by hypergraph shape (chain, star, triangle, 4/5-cycle, 4-clique, lollipop, disconnected product, random with repeated variables; constants, i64 columns, function and constructor atoms, duplicate atoms, primitive guards, computed variables) over generated databases (0..400 rows per table, several skews, sizes straddling 32, subsumed rows, unions) with head (Out all-variables); after each of three runs (database grown / unions / deletions and subsumptions in between, so cached plans are re-instantiated) Out must equal Out_before ∪ hash-join evaluation of the body on the dump taken before the run. Each body is declared with and without :no-decomp. Non-trivial = body with a join variable and a non-empty result; distinct by (shape, #atoms, result-size class, phase).",
    );
    let n = a.cases(200, 8000);
    let root = Rng::new(a.seed);
    for case in 0..n {
        let t_case = std::time::Instant::now();
        let _guard = Timing(case, t_case);
        let mut rng = root.fork(case);
        let dom = *rng.pick(&[3usize, 4, 5, 6, 8, 10, 14, 25, 60]);
        let mut eg = EGraph::new(a.threads);
        if rng.chance(1, 5) {
            eg.no_decomp = true;
            rep.count("cases_global_no_decomp", 1);
        }
        let mut log: Vec<String> = vec![PRELUDE.to_string()];
        let mut setup: Vec<String> = vec![];
        let planting = rng.chance(1, 2);
        gen_rows(&mut rng, dom, &mut setup, 1, None, planting);
        // constants used by patterns exist only sometimes
        for k in 0..rng.below(6) {
            setup.push(nterm(k));
        }
        for _ in 0..*rng.pick(&[0usize, 0, 2, 6]) {
            setup.push(format!("(union {} {})", nterm(rng.below(dom)), nterm(rng.below(dom))));
        }
        for _ in 0..*rng.pick(&[0usize, 0, 3, 10]) {
            if rng.chance(1, 2) {
                setup.push(format!("(subsume (F {}))", nterm(rng.below(dom))));
            } else {
                setup.push(format!("(subsume (G {} {}))", nterm(rng.below(dom)), nterm(rng.below(dom))));
            }
        }
        // rules: each body twice (decomposition allowed / :no-decomp)
        let mut rules: Vec<RuleCase> = vec![];
        let nb = 1 + rng.below(3);
        let mut decls = vec![];
        for bi in 0..nb {
            let body = gen_body(&mut rng);
            if planting {
                let before = setup.len();
                plant(&body, &mut rng, dom, &mut setup);
                rep.count("planted_rows", (setup.len() - before) as u64);
            }
            for (vi, opt) in ["", " :no-decomp"].iter().enumerate() {
                let out_name = format!("Out{bi}_{vi}");
                let tys: Vec<&str> = body.var_ty.iter().map(|t| if *t == Ty::S { "S" } else { "i64" }).collect();
                decls.push(format!("(relation {out_name} ({}))", tys.join(" ")));
                let vars: Vec<String> = (0..body.var_ty.len()).map(|i| format!("x{i}")).collect();
                decls.push(format!("(rule ({}) (({out_name} {})) :ruleset q{opt})", body.facts().join(" "), vars.join(" ")));
                rules.push(RuleCase { body: body.clone(), out_name });
            }
        }
        let mut all = vec![PRELUDE.to_string()];
        all.extend(setup.iter().cloned());
        all.extend(decls.iter().cloned());
        log.extend(setup);
        log.extend(decls);
        let text = all.join("\n");
        match run::run(&mut eg, &text) {
            Outcome::Ok(_) => {}
            o => {
                rep.inconclusive(&format!("setup failed: {}", o.short().chars().take(300).collect::<String>()));
                continue;
            }
        }
        rep.evaluations += 1;
        let mut bad = false;
        for phase in 0..3 {
            if phase == 1 {
                // grow one or two tables, more unions
                let mut more = vec![];
                for _ in 0..(1 + rng.below(2)) {
                    let ti = rng.below(N_TAB);
                    let scale = 1 + rng.below(4);
                    gen_rows(&mut rng, dom, &mut more, scale, Some(ti), planting);
                }
                for _ in 0..rng.below(4) {
                    more.push(format!("(union {} {})", nterm(rng.below(dom)), nterm(rng.below(dom))));
                }
                if more.is_empty() {
                    more.push(format!("(R5 {})", nterm(rng.below(dom))));
                }
                let t = more.join("\n");
                log.push(t.clone());
                if !run::run(&mut eg, &t).is_ok() {
                    rep.inconclusive("phase-1 growth failed");
                    break;
                }
            } else if phase == 2 {
                // deletions from relations / functions and subsumptions of constructor rows
                dump::register_unordered_from(&eg);
                let d = Dump::take(&eg, false);
                let names = d.class_names();
                let mut cmds = vec![];
                for t in &d.tables {
                    let Some(ti) = TABS.iter().position(|x| x.name == t.name) else { continue };
                    if ti == N_TAB || t.rows.is_empty() {
                        continue;
                    }
                    let k = *rng.pick(&[0usize, 0, 1, 3, t.rows.len() / 2]);
                    for _ in 0..k {
                        let r = rng.pick(&t.rows);
                        let nn = r.vals.len();
                        let args: Option<Vec<String>> = r.vals[..nn - 1]
                            .iter()
                            .map(|v| match v {
                                V::Id(s, _, c) => names.get(&(s.clone(), *c)).cloned(),
                                V::Base(b) => Some(b.clone()),
                                _ => None,
                            })
                            .collect();
                        let Some(args) = args else { continue };
                        if args.iter().any(|x| x.contains('#')) {
                            continue;
                        }
                        let term = format!("({} {})", t.name, args.join(" "));
                        match TABS[ti].out {
                            Some(Ty::S) => cmds.push(format!("(subsume {term})")),
                            _ => cmds.push(format!("(delete {term})")),
                        }
                    }
                }
                if cmds.is_empty() {
                    cmds.push(format!("(R5 {})", nterm(rng.below(dom))));
                }
                let t = cmds.join("\n");
                log.push(t.clone());
                if !run::run(&mut eg, &t).is_ok() {
                    rep.inconclusive("phase-2 deletions failed");
                    break;
                }
            }
            dump::register_unordered_from(&eg);
            let before = Dump::take(&eg, false);
            let db = db_of(&before);
            // oracle first: a body whose result is huge is not worth the engine's time (and the oracle's cap)
            let expected: Vec<Option<BTreeSet<Vec<Val>>>> = rules.iter().map(|rc| evaluate(&rc.body, &db, 60_000)).collect();
            if expected.iter().any(|m| m.is_none()) {
                rep.count("cases_abandoned_result_too_large", 1);
                break;
            }
            log.push("(run q 1)".into());
            match run::run(&mut eg, "(run q 1)") {
                Outcome::Ok(_) => {}
                o => {
                    rep.inconclusive(&format!("run failed: {}", o.short()));
                    break;
                }
            }
            let after = Dump::take(&eg, false);
            for (rc, m) in rules.iter().zip(expected.into_iter()) {
                let Some(m) = m else { continue };
                let (Some(ob), Some(oa)) = (out_rows(&before, &rc.out_name), out_rows(&after, &rc.out_name)) else {
                    rep.inconclusive("Out table not readable");
                    continue;
                };
                let want: BTreeSet<Vec<Val>> = ob.union(&m).cloned().collect();
                rep.count("rule_runs_judged", 1);
                rep.count(&format!("shape_{}", rc.body.shape), 1);
                rep.count("matches_expected_total", m.len() as u64);
                let joinvar = rc.body.atoms.len() > 1;
                if joinvar && !m.is_empty() {
                    let cls = match m.len() {
                        0 => 0,
                        1..=9 => 1,
                        10..=99 => 2,
                        100..=999 => 3,
                        _ => 4,
                    };
                    rep.nontrivial(&format!("{}|{}|{}|{}", rc.body.shape, rc.body.atoms.len(), cls, phase));
                    rep.count("rule_runs_nontrivial", 1);
                }
                if oa != want {
                    let missing: Vec<&Vec<Val>> = want.difference(&oa).take(3).collect();
                    let extra: Vec<&Vec<Val>> = oa.difference(&want).take(3).collect();
                    let replay = log.join("\n");
                    rep.violation(
                        &format!("C02:{}", dump::fnv(&format!("{replay}{}", rc.out_name))),
                        &format!(
                            "phase {phase}, rule writing {} (shape {}, body {}): engine applied {} substitutions, the body has {} matches on the pre-run database (+{} already present); missing {:?}; not justified {:?}",
                            rc.out_name,
                            rc.body.shape,
                            rc.body.facts().join(" "),
                            oa.len(),
                            m.len(),
                            ob.len(),
                            missing,
                            extra
                        ),
                        &replay,
                    );
                    bad = true;
                }
            }
            if bad {
                break;
            }
        }
        if case < 2 {
            rep.sample(json!({"program": log.iter().map(|l| if l.len() > 600 { format!("{} ...[{} chars]", &l[..600], l.len()) } else { l.clone() }).collect::<Vec<_>>()}));
        }
    }
    rep
}
