//! `eggmon exec`: run an egglog file in this process configuration and print
//! outcomes + canonical dump as JSON (used for replays and as the child of the
//! cross-process differential monitors C06 / C20).
use crate::dump::{self, Dump};
use crate::out::Report;
use crate::run::{self, Outcome};
use crate::Args;
use egglog::EGraph;
use serde_json::json;

pub fn new_egraph(mode: &str, threads: usize) -> EGraph {
    let eg = match mode {
        "term" => EGraph::new_with_term_encoding(),
        "proofs" => EGraph::new_with_proofs(),
        _ => EGraph::default(),
    };
    eg.with_num_threads(threads)
}

/// Split program text into top-level s-expressions (strings and comments aware).
pub fn split_toplevel(text: &str) -> Vec<String> {
    let mut out = vec![];
    let mut depth = 0i32;
    let mut cur = String::new();
    let mut in_str = false;
    let mut esc = false;
    let mut in_comment = false;
    for ch in text.chars() {
        if in_comment {
            if ch == '\n' {
                in_comment = false;
                if depth > 0 {
                    cur.push(ch);
                }
            }
            continue;
        }
        if in_str {
            cur.push(ch);
            if esc {
                esc = false;
            } else if ch == '\\' {
                esc = true;
            } else if ch == '"' {
                in_str = false;
            }
            continue;
        }
        match ch {
            ';' => in_comment = true,
            '"' => {
                in_str = true;
                cur.push(ch);
            }
            '(' => {
                depth += 1;
                cur.push(ch);
            }
            ')' => {
                depth -= 1;
                cur.push(ch);
                if depth == 0 {
                    out.push(cur.trim().to_string());
                    cur.clear();
                }
            }
            _ => {
                if depth > 0 {
                    cur.push(ch);
                }
            }
        }
    }
    out
}

pub fn run(a: &Args) -> Report {
    let mut rep = Report::new("exec", "replay of one program");
    let file = a.get("file").or(a.replay.as_deref()).expect("--file");
    let text = std::fs::read_to_string(file).unwrap();
    let mode = a.get("mode").unwrap_or("plain");
    let mut eg = new_egraph(mode, a.threads);
    if a.get("naive") == Some("1") {
        eg.seminaive = false;
    }
    let mut log = vec![];
    let cmds = if a.get("whole") == Some("1") { vec![text.clone()] } else { split_toplevel(&text) };
    for cmd in cmds {
        let o = run::run(&mut eg, &cmd);
        let bad = crate::c04::invariants(&eg);
        log.push(json!({"cmd": cmd, "outcome": o.short(), "invariant_violations": bad}));
        if let Outcome::Panic(_) = o {
            rep.count("panics", 1);
        }
    }
    dump::register_unordered_from(&eg);
    let d = Dump::take(&eg, false);
    rep.evaluations = 1;
    rep.samples.push(json!({"log": log, "canonical": d.canonical(), "raw": d.raw_text()}));
    rep
}
