//! C07 — extraction returns a member of the class, at the minimum cost.
//!
//! Oracle: an independent least-fixpoint cost computation over the dump
//! (saturating u64 addition, base values cost 1, containers cost the sum of
//! their elements, only unsubsumed rows of extractable constructors) gives the
//! true minimum per class and whether any term exists; membership of the returned
//! term is established by re-evaluating it on the engine (`check (= term root)`).
use crate::c13;
use crate::c15::{read_all, S};
use crate::dump::{self, Dump, V};
use crate::out::Report;
use crate::pgen::{self, GenCfg, Sig};
use crate::rng::Rng;
use crate::run::{self, Outcome};
use crate::Args;
use egglog::{CommandOutput, EGraph, Term, TermDag, TermId};
use serde_json::json;
use std::collections::{BTreeMap, HashMap};

fn sat(a: u64, b: u64) -> u64 {
    a.saturating_add(b)
}

fn val_cost(v: &V, cost: &HashMap<(String, u32), u64>) -> Option<u64> {
    match v {
        V::Id(s, _, c) => cost.get(&(s.clone(), *c)).copied(),
        V::Base(_) => Some(1),
        V::Cont(_, _, items) => {
            let mut t = 0u64;
            for x in items {
                t = sat(t, val_cost(x, cost)?);
            }
            Some(t)
        }
    }
}

/// least fixpoint: minimal cost per class over extractable, unsubsumed rows
pub fn oracle_costs(d: &Dump, sig: &Sig) -> HashMap<(String, u32), u64> {
    let mut cost: HashMap<(String, u32), u64> = HashMap::new();
    loop {
        let mut changed = false;
        for t in &d.tables {
            let Some(c) = sig.ctors.iter().find(|c| c.name == t.name) else { continue };
            if c.unextractable {
                continue;
            }
            let head = c.cost.unwrap_or(1);
            'row: for r in &t.rows {
                if r.subsumed {
                    continue;
                }
                let n = r.vals.len();
                let mut total = head;
                for v in &r.vals[..n - 1] {
                    match val_cost(v, &cost) {
                        Some(k) => total = sat(total, k),
                        None => continue 'row,
                    }
                }
                if let V::Id(s, _, cid) = &r.vals[n - 1] {
                    let key = (s.clone(), *cid);
                    match cost.get(&key) {
                        Some(cur) if *cur <= total => {}
                        _ => {
                            cost.insert(key, total);
                            changed = true;
                        }
                    }
                }
            }
        }
        if !changed {
            break;
        }
    }
    cost
}

/// structural key of a dumped value (containers by contents, unordered ones sorted)
fn vkey(v: &V) -> String {
    match v {
        V::Id(s, _, c) => format!("{s}-{c}"),
        V::Base(b) => b.clone(),
        V::Cont(s, _, items) => {
            let mut parts: Vec<String> = items.iter().map(vkey).collect();
            if dump::is_unordered(s) {
                parts.sort();
            }
            format!("[{}]", parts.join(" "))
        }
    }
}

/// Evaluate a ground term with container literals (vec-of / set-of / multiset-of / pair / *-empty)
/// over the dump: returns the structural key and, for e-class results, (sort, canonical id).
fn eval_with_containers(d: &Dump, t: &S) -> Option<(String, Option<(String, u32)>)> {
    match t {
        S::A(a) => Some((a.clone(), None)),
        S::Str(x) => Some((format!("\"{x}\""), None)),
        S::L(v) => {
            let S::A(h) = v.first()? else { return None };
            let mut kids = vec![];
            for x in &v[1..] {
                kids.push(eval_with_containers(d, x)?.0);
            }
            match h.as_str() {
                "vec-of" | "vec-empty" | "pair" => Some((format!("[{}]", kids.join(" ")), None)),
                "set-of" | "set-empty" => {
                    kids.sort();
                    kids.dedup();
                    Some((format!("[{}]", kids.join(" ")), None))
                }
                "multiset-of" => {
                    kids.sort();
                    Some((format!("[{}]", kids.join(" ")), None))
                }
                _ => {
                    let t = d.tables.iter().find(|t| &t.name == h)?;
                    for r in &t.rows {
                        let n = r.vals.len();
                        if n - 1 == kids.len() && r.vals[..n - 1].iter().map(vkey).zip(kids.iter()).all(|(a, b)| a == *b) {
                            return match &r.vals[n - 1] {
                                V::Id(s, _, c) => Some((format!("{s}-{c}"), Some((s.clone(), *c)))),
                                o => Some((vkey(o), None)),
                            };
                        }
                    }
                    None
                }
            }
        }
    }
}

fn term_to_s(dag: &TermDag, id: TermId) -> S {
    match dag.get(id) {
        Term::App(n, ch) => {
            let mut v = vec![S::A(n.clone())];
            for c in ch {
                v.push(term_to_s(dag, *c));
            }
            S::L(v)
        }
        Term::Lit(l) => S::A(l.to_string()),
        Term::Var(x) => S::A(x.clone()),
    }
}

/// tree cost of a term under the declared costs; None if it mentions something unknown
fn tree_cost(t: &S, sig: &Sig) -> Option<u64> {
    match t {
        S::A(_) | S::Str(_) => Some(1),
        S::L(v) => {
            let S::A(h) = v.first()? else { return None };
            let mut kids = 0u64;
            for x in &v[1..] {
                kids = sat(kids, tree_cost(x, sig)?);
            }
            if let Some(c) = sig.ctors.iter().find(|c| &c.name == h) {
                if c.unextractable {
                    return None;
                }
                Some(sat(c.cost.unwrap_or(1), kids))
            } else if matches!(h.as_str(), "vec-of" | "vec-empty" | "set-of" | "set-empty" | "multiset-of" | "pair") {
                Some(kids)
            } else {
                None
            }
        }
    }
}

pub fn run(a: &Args) -> Report {
    let mut rep = Report::new(
        "C07",
        "generated e-graphs (random declaration and insertion order, :cost incl. 0 and values near i64::MAX so sums saturate, :unextractable, subsumed rows, unions creating cycles and ties, containers of e-classes) and every nameable class as root: extract must succeed iff the oracle finds a term; the result must check equal to the root, use only unsubsumed rows of extractable constructors, have tree cost = reported cost = oracle minimum; variants must be members with distinct root e-nodes. Non-trivial = e-graph with >= 1 union; distinct by canonical dump.",
    );
    let n = a.cases(400, 16000);
    let root = Rng::new(a.seed);
    for case in 0..n {
        let mut rng = root.fork(case);
        let containers = rng.chance(1, 4);
        let cfg = GenCfg {
            costs: true,
            unextractable: rng.chance(1, 2),
            subsume: rng.chance(1, 2),
            containers,
            nested_containers: containers && rng.chance(1, 2),
            isolate_behind_nested: rng.chance(1, 2),
            max_sorts: if containers { 3 } else { 2 },
            funcs: false,
            rules: rng.chance(1, 3),
            checks: false,
            n_cmds: (8, 22),
            ..Default::default()
        };
        let (mut sig, cmds) = pgen::gen_history(&mut rng, &cfg);
        // Map containers have their own printed form; keep to flat container constructors
        if sig.conts.iter().any(|c| c.kind == pgen::CKind::Map) {
            sig.conts.clear();
            rep.evaluations += 1;
            continue;
        }
        let mut eg = EGraph::new(a.threads);
        let mut log = vec![];
        let mut unions = 0;
        let mut panicked = false;
        for c in &cmds {
            let t = c.to_string();
            if t.starts_with("(union") {
                unions += 1;
            }
            if run::skip_run_on_large_db(&eg, &t) {
                continue;
            }
            let o = run::run(&mut eg, &t);
            log.push(t);
            if let Outcome::Panic(_) = o {
                panicked = true;
                break;
            }
            if eg.num_tuples() > 1500 {
                break;
            }
        }
        rep.evaluations += 1;
        if panicked {
            rep.inconclusive("panic while building the e-graph (C09's business)");
            continue;
        }
        dump::register_unordered_from(&eg);
        let d = Dump::take(&eg, false);
        let cost = oracle_costs(&d, &sig);
        let saturated = cost.values().any(|c| *c == u64::MAX);
        if saturated {
            rep.count("egraphs_with_saturated_cost", 1);
        }
        let names = d.class_names();
        let globals: BTreeMap<String, S> = BTreeMap::new();
        let replay_base = log.join("\n");
        let mut cyclic = false;
        // roots: every class that has a ground-term name
        let mut roots: Vec<((String, u32), String)> =
            names.iter().filter(|(k, n)| !n.starts_with('?') && !n.contains('#') && !n.contains('[') && sig.sorts.contains(&k.0)).map(|(k, n)| (k.clone(), n.clone())).collect();
        roots.truncate(25);
        // classes whose least name holds a container have no parseable name above: take the ground
        // terms the history itself inserted (container literals included) as further roots
        let mut extra: Vec<((String, u32), String)> = vec![];
        for c in &cmds {
            let ts: Vec<&pgen::T> = match c {
                pgen::Cmd::Act(pgen::Act::Expr(t @ pgen::T::App(..))) => vec![t],
                pgen::Cmd::Act(pgen::Act::Union(x, y)) => vec![x, y],
                _ => vec![],
            };
            for t in ts {
                let text = t.to_string();
                if text.contains('$') || !text.contains("-of") {
                    continue;
                }
                let Ok(parsed) = read_all(&text) else { continue };
                let Some(sx) = parsed.first() else { continue };
                if let Some((_, Some((sort, cid)))) = eval_with_containers(&d, sx) {
                    if sig.sorts.contains(&sort) && !extra.iter().any(|(k, _)| *k == (sort.clone(), cid)) && !roots.iter().any(|(k, _)| *k == (sort.clone(), cid)) {
                        extra.push(((sort, cid), text));
                    }
                }
            }
        }
        extra.truncate(10);
        rep.count("roots_holding_containers", extra.len() as u64);
        roots.extend(extra);
        for (key, rootname) in &roots {
            let mut cl = eg.clone();
            let want = cost.get(key).copied();
            rep.count("extractions", 1);
            let replay = format!("{replay_base}\n(extract {rootname})");
            match run::run_raw(&mut cl, &format!("(extract {rootname})")) {
                Ok(outs) => {
                    let Some(CommandOutput::ExtractBest(dag, reported, id)) = outs.into_iter().find(|o| matches!(o, CommandOutput::ExtractBest(..))) else {
                        rep.inconclusive("extract returned no ExtractBest output");
                        continue;
                    };
                    let s = term_to_s(&dag, id);
                    let text = s.text();
                    let Some(w) = want else {
                        rep.violation(&format!("C07:spurious:{}", dump::fnv(&replay)), &format!("extract of {rootname} returned `{text}` (cost {reported}) although no term of extractable, unsubsumed constructors exists in the class"), &replay);
                        continue;
                    };
                    if reported != w {
                        rep.violation(
                            &format!("C07:not-minimal:{}", dump::fnv(&replay)),
                            &format!("extract of {rootname} reported cost {reported} with `{text}`; the minimum over the class is {w}"),
                            &replay,
                        );
                        continue;
                    }
                    match tree_cost(&s, &sig) {
                        Some(tc) if tc == reported => {}
                        Some(tc) => {
                            rep.violation(&format!("C07:cost-mismatch:{}", dump::fnv(&replay)), &format!("extract of {rootname}: term `{text}` has tree cost {tc} but cost {reported} was reported"), &replay);
                            continue;
                        }
                        None => {
                            rep.violation(&format!("C07:unextractable-used:{}", dump::fnv(&replay)), &format!("extract of {rootname}: term `{text}` mentions an unextractable or unknown constructor"), &replay);
                            continue;
                        }
                    }
                    if !containers {
                        if let Some(wit) = c13::uses_subsumed_pub(&d, &s, &globals) {
                            rep.violation(&format!("C07:subsumed-used:{}", dump::fnv(&replay)), &format!("extract of {rootname}: term `{text}` uses the subsumed / missing row `{wit}`"), &replay);
                            continue;
                        }
                    }
                    // membership by re-evaluation on the engine
                    match run::check(&mut cl, &format!("(= {text} {rootname})")) {
                        Ok(true) => {}
                        Ok(false) => rep.violation(&format!("C07:not-member:{}", dump::fnv(&replay)), &format!("extracted term `{text}` is not in the class of {rootname}"), &replay),
                        Err(e) => rep.violation(&format!("C07:not-evaluable:{}", dump::fnv(&replay)), &format!("extracted term `{text}` cannot be evaluated: {e}"), &replay),
                    }
                    if text.len() > rootname.len() + 200 {
                        cyclic = true;
                    }
                }
                Err(Outcome::Err(e)) => {
                    if want.is_some() {
                        rep.violation(&format!("C07:refused:{}", dump::fnv(&replay)), &format!("extract of {rootname} failed ({}) although a term of cost {} exists", e.lines().last().unwrap_or(""), want.unwrap()), &replay);
                    } else {
                        rep.count("extractions_correctly_refused", 1);
                    }
                }
                Err(Outcome::Panic(p)) => {
                    let sig_ = if saturated && p.contains("src/extract.rs") && p.contains("unwrap") {
                        // known finding: parent-edge selection under cost saturation
                        "C07:extract-panic-saturated".to_string()
                    } else {
                        format!("C07:panic:{}", p.split('@').next_back().unwrap_or("").trim())
                    };
                    rep.violation(&sig_, &format!("extract of {rootname} panicked: {p}"), &replay);
                }
                Err(Outcome::Ok(_)) => unreachable!(),
            }
        }
        // variants
        if let Some((key, rootname)) = roots.first() {
            let k = 1 + rng.below(4);
            let mut cl = eg.clone();
            let replay = format!("{replay_base}\n(extract {rootname} {k})");
            if let Ok(outs) = run::run_raw(&mut cl, &format!("(extract {rootname} {k})")) {
                for o in outs {
                    if let CommandOutput::ExtractVariants(dag, ids) = o {
                        rep.count("variant_extractions", 1);
                        let mut rootnodes = vec![];
                        for id in ids {
                            let s = term_to_s(&dag, id);
                            let text = s.text();
                            match run::check(&mut cl, &format!("(= {text} {rootname})")) {
                                Ok(true) => {}
                                _ => rep.violation(&format!("C07:variant-not-member:{}", dump::fnv(&replay)), &format!("variant `{text}` is not in the class of {rootname}"), &replay),
                            }
                            // root e-node = head + classes of the children
                            if let S::L(v) = &s {
                                let kids: Vec<String> = v[1..].iter().map(|x| c13::eval_pub(&d, x, &globals).map(|(k, _)| format!("{k:?}")).unwrap_or_else(|| x.text())).collect();
                                rootnodes.push(format!("{}|{}", v[0].text(), kids.join(",")));
                            }
                        }
                        let mut u = rootnodes.clone();
                        u.sort();
                        u.dedup();
                        if u.len() != rootnodes.len() && !containers {
                            rep.violation(&format!("C07:variant-duplicate:{}", dump::fnv(&replay)), &format!("two variants share a root e-node: {rootnodes:?}"), &replay);
                        }
                        let _ = key;
                    }
                }
            }
        }
        if unions > 0 {
            rep.nontrivial(&d.canonical());
        }
        if cyclic {
            rep.count("egraphs_with_long_extractions", 1);
        }
        if case < 2 {
            rep.sample(json!({"program": log, "roots": roots.iter().map(|r| r.1.clone()).take(5).collect::<Vec<_>>()}));
        }
    }
    // known-finding witnesses
    if let Some(dir) = a.get("witness-dir") {
        if let Ok(rd) = std::fs::read_dir(dir) {
            for f in rd.filter_map(|e| e.ok()).map(|e| e.path()).filter(|p| p.extension().map(|x| x == "egg").unwrap_or(false)) {
                let text = std::fs::read_to_string(&f).unwrap();
                let mut eg = EGraph::default();
                rep.count("witness_programs", 1);
                for c in crate::exec::split_toplevel(&text) {
                    if let Outcome::Panic(p) = run::run(&mut eg, &c) {
                        let stem = f.file_stem().unwrap().to_string_lossy().to_string();
                        rep.violation(&format!("C07:witness:{stem}"), &format!("`{c}` panicked: {p}"), &text);
                    }
                }
            }
        }
    }
    let _ = read_all("");
    rep
}
