//! C15 — printing and re-parsing a program is the identity, at every stage.
//!
//! Oracle: round-trip identity (metamorphic). A syntax tree T is generated as an
//! s-expression over the full command grammar; text(T) is parsed by egglog,
//! printed by egglog, and the result read back by an independent s-expression
//! reader must equal T modulo the order of `:keyword` options and the spelling of
//! numeric literals (compared by value / bit pattern). Plus print idempotence,
//! literal extraction round trips and resolve_program re-runs.
use crate::dump;
use crate::out::Report;
use crate::pgen::{self, GenCfg};
use crate::rng::Rng;
use crate::run::{self, Outcome};
use crate::Args;
use egglog::ast::Parser;
use egglog::EGraph;
use serde_json::json;

#[derive(Clone, Debug, PartialEq)]
pub enum S {
    A(String),
    Str(String),
    L(Vec<S>),
}

fn a(s: &str) -> S {
    S::A(s.to_string())
}
fn l(v: Vec<S>) -> S {
    S::L(v)
}

impl S {
    pub fn text(&self) -> String {
        match self {
            S::A(s) => s.clone(),
            S::Str(s) => {
                let mut o = String::from("\"");
                for c in s.chars() {
                    match c {
                        '\\' => o.push_str("\\\\"),
                        '"' => o.push_str("\\\""),
                        c => o.push(c),
                    }
                }
                o.push('"');
                o
            }
            S::L(v) => format!("({})", v.iter().map(|x| x.text()).collect::<Vec<_>>().join(" ")),
        }
    }
}

/// Independent reader for the printed text.
pub fn read_all(text: &str) -> Result<Vec<S>, String> {
    let cs: Vec<char> = text.chars().collect();
    let mut i = 0;
    let mut stack: Vec<Vec<S>> = vec![vec![]];
    while i < cs.len() {
        let c = cs[i];
        if c.is_whitespace() {
            i += 1;
        } else if c == ';' {
            while i < cs.len() && cs[i] != '\n' {
                i += 1;
            }
        } else if c == '(' {
            stack.push(vec![]);
            i += 1;
        } else if c == ')' {
            let v = stack.pop().ok_or("unbalanced )")?;
            stack.last_mut().ok_or("unbalanced )")?.push(S::L(v));
            i += 1;
        } else if c == '"' {
            i += 1;
            let mut s = String::new();
            loop {
                if i >= cs.len() {
                    return Err("unterminated string".into());
                }
                match cs[i] {
                    '"' => break,
                    '\\' => {
                        i += 1;
                        match cs.get(i) {
                            Some('n') => s.push('\n'),
                            Some('t') => s.push('\t'),
                            Some('\\') => s.push('\\'),
                            Some('"') => s.push('"'),
                            other => return Err(format!("unknown escape {other:?}")),
                        }
                    }
                    c => s.push(c),
                }
                i += 1;
            }
            i += 1;
            stack.last_mut().unwrap().push(S::Str(s));
        } else {
            let st = i;
            while i < cs.len() && !cs[i].is_whitespace() && !matches!(cs[i], ';' | '(' | ')') {
                i += 1;
            }
            stack.last_mut().unwrap().push(S::A(cs[st..i].iter().collect()));
        }
    }
    if stack.len() != 1 {
        return Err("unbalanced (".into());
    }
    Ok(stack.pop().unwrap())
}

fn atom_eq(x: &str, y: &str) -> bool {
    if x == y {
        return true;
    }
    if let (Ok(p), Ok(q)) = (x.parse::<i64>(), y.parse::<i64>()) {
        return p == q;
    }
    let f = |s: &str| -> Option<f64> {
        if s.parse::<i64>().is_ok() {
            return None;
        }
        match s {
            "NaN" => Some(f64::NAN),
            "inf" => Some(f64::INFINITY),
            "-inf" => Some(f64::NEG_INFINITY),
            _ => s.parse::<f64>().ok().filter(|v| v.is_finite()),
        }
    };
    if let (Some(p), Some(q)) = (f(x), f(y)) {
        return p.to_bits() == q.to_bits() || (p.is_nan() && q.is_nan());
    }
    false
}

/// Equality modulo option order: a list is split into positional items and `:key v*` groups.
pub fn same(x: &S, y: &S) -> bool {
    match (x, y) {
        (S::A(p), S::A(q)) => atom_eq(p, q),
        (S::Str(p), S::Str(q)) => p == q,
        (S::L(p), S::L(q)) => {
            let split = |v: &Vec<S>| -> (Vec<S>, Vec<Vec<S>>) {
                let mut pos = vec![];
                let mut groups: Vec<Vec<S>> = vec![];
                for it in v {
                    let is_key = matches!(it, S::A(s) if s.starts_with(':') && s.len() > 1);
                    if is_key {
                        groups.push(vec![it.clone()]);
                    } else if let Some(g) = groups.last_mut() {
                        g.push(it.clone());
                    } else {
                        pos.push(it.clone());
                    }
                }
                (pos, groups)
            };
            let (pp, pg) = split(p);
            let (qp, qg) = split(q);
            if pp.len() != qp.len() || pg.len() != qg.len() {
                return false;
            }
            if !pp.iter().zip(qp.iter()).all(|(u, v)| same(u, v)) {
                return false;
            }
            let mut used = vec![false; qg.len()];
            for g in &pg {
                let mut found = false;
                for (j, h) in qg.iter().enumerate() {
                    if !used[j] && g.len() == h.len() && g.iter().zip(h.iter()).all(|(u, v)| same(u, v)) {
                        used[j] = true;
                        found = true;
                        break;
                    }
                }
                if !found {
                    return false;
                }
            }
            true
        }
        _ => false,
    }
}

/// Flatten `seq` wrappers inside schedules (seq is associative): used only to recognise the
/// known finding F-C15-schedule-seq-wrap, never to accept a difference silently.
pub fn flatten_seq(x: &S) -> S {
    match x {
        S::L(v) => {
            let head = match v.first() {
                Some(S::A(h)) => h.clone(),
                _ => String::new(),
            };
            let kids: Vec<S> = v.iter().map(flatten_seq).collect();
            if matches!(head.as_str(), "run-schedule" | "saturate" | "repeat" | "seq") {
                let mut out = vec![];
                for k in kids {
                    match &k {
                        S::L(inner) if matches!(inner.first(), Some(S::A(h)) if h == "seq") => out.extend(inner[1..].iter().cloned()),
                        _ => out.push(k),
                    }
                }
                S::L(out)
            } else {
                S::L(kids)
            }
        }
        other => other.clone(),
    }
}

// ---------------------------------------------------------------------------
// grammar generator

struct G<'r> {
    rng: &'r mut Rng,
    counts: std::collections::BTreeMap<String, u64>,
}

impl G<'_> {
    fn hit(&mut self, k: &str) {
        *self.counts.entry(k.to_string()).or_insert(0) += 1;
    }
    fn sym(&mut self) -> S {
        let pool = ["x", "y", "z", "Foo", "bar-baz", "a.b", "q?", "v_1", "+", "<=", "list*", "M2", "$glob", "λ", "snake_case", "Add", "Num"];
        a(pool[self.rng.below(pool.len())])
    }
    fn name(&mut self) -> S {
        let pool = ["F", "G", "Math", "Expr", "rel", "edge", "path", "lo-bound", "T0", "my.sort"];
        a(pool[self.rng.below(pool.len())])
    }
    fn int(&mut self) -> S {
        self.hit("lit:int");
        let v = match self.rng.below(8) {
            0 => i64::MAX,
            1 => i64::MIN,
            2 => 0,
            3 => -1,
            _ => self.rng.range(-1000, 1000),
        };
        a(&v.to_string())
    }
    fn float(&mut self) -> S {
        self.hit("lit:float");
        let v: f64 = match self.rng.below(14) {
            0 => return a("NaN"),
            1 => return a("inf"),
            2 => return a("-inf"),
            3 => -0.0,
            4 => 5e-324,
            5 => 1e308,
            6 => f64::MAX,
            7 => f64::MIN_POSITIVE,
            8 => 0.1 + 0.2,
            9 => 1e21,
            10 => 1e-7,
            11 => -123456789.125,
            _ => (self.rng.range(-100000, 100000) as f64) / 64.0,
        };
        // spell it the way a user could: Rust's shortest round-trip form, forced to look like a float
        let mut s = format!("{v:?}");
        if s.parse::<i64>().is_ok() {
            s.push_str(".0");
        }
        a(&s)
    }
    fn string(&mut self) -> S {
        self.hit("lit:string");
        let pool = ["", "hello", "with \"quotes\"", "back\\slash", "new\nline", "tab\there", "unicode ✓ λ 漢字", "trailing\\", "\"", "a;b(c)d", "  spaces  ", "\\n literal"];
        S::Str(pool[self.rng.below(pool.len())].to_string())
    }
    fn lit(&mut self) -> S {
        match self.rng.below(6) {
            0 | 1 => self.int(),
            2 => self.float(),
            3 => self.string(),
            4 => {
                self.hit("lit:bool");
                a(if self.rng.chance(1, 2) { "true" } else { "false" })
            }
            _ => {
                self.hit("lit:unit");
                l(vec![])
            }
        }
    }
    fn expr(&mut self, d: usize) -> S {
        match self.rng.below(if d == 0 { 2 } else { 4 }) {
            0 => self.sym(),
            1 => self.lit(),
            _ => {
                let n = self.rng.below(4);
                let mut v = vec![self.sym()];
                for _ in 0..n {
                    v.push(self.expr(d - 1));
                }
                l(v)
            }
        }
    }
    fn call(&mut self, d: usize) -> S {
        let n = self.rng.below(4);
        let mut v = vec![self.name()];
        for _ in 0..n {
            v.push(self.expr(d));
        }
        l(v)
    }
    fn fact(&mut self) -> S {
        if self.rng.chance(1, 2) {
            self.hit("fact:eq");
            l(vec![a("="), self.expr(2), self.expr(2)])
        } else {
            self.hit("fact:atom");
            self.call(2)
        }
    }
    fn facts(&mut self, lo: usize) -> Vec<S> {
        let n = lo + self.rng.below(3);
        (0..n).map(|_| self.fact()).collect()
    }
    fn action(&mut self) -> S {
        match self.rng.below(8) {
            0 => {
                self.hit("action:let");
                l(vec![a("let"), self.sym(), self.expr(2)])
            }
            1 => {
                self.hit("action:set");
                l(vec![a("set"), self.call(1), self.expr(2)])
            }
            2 => {
                self.hit("action:union");
                l(vec![a("union"), self.expr(2), self.expr(2)])
            }
            3 => {
                self.hit("action:delete");
                l(vec![a("delete"), self.call(1)])
            }
            4 => {
                self.hit("action:subsume");
                l(vec![a("subsume"), self.call(1)])
            }
            5 => {
                self.hit("action:panic");
                l(vec![a("panic"), self.string()])
            }
            _ => {
                self.hit("action:expr");
                self.call(2)
            }
        }
    }
    fn schedule(&mut self, d: usize) -> S {
        match self.rng.below(if d == 0 { 2 } else { 6 }) {
            0 => {
                self.hit("sched:run");
                l(vec![a("run"), self.name()])
            }
            1 => {
                self.hit("sched:run-until");
                let mut v = vec![a("run"), self.name(), a(":until")];
                v.extend(self.facts(1));
                l(v)
            }
            2 => {
                self.hit("sched:saturate");
                let n = 1 + self.rng.below(2);
                let mut v = vec![a("saturate")];
                for _ in 0..n {
                    v.push(self.schedule(d - 1));
                }
                l(v)
            }
            3 => {
                self.hit("sched:seq");
                let n = 1 + self.rng.below(3);
                let mut v = vec![a("seq")];
                for _ in 0..n {
                    v.push(self.schedule(d - 1));
                }
                l(v)
            }
            _ => {
                self.hit("sched:repeat");
                let n = 1 + self.rng.below(2);
                let mut v = vec![a("repeat"), a(&self.rng.below(50).to_string())];
                for _ in 0..n {
                    v.push(self.schedule(d - 1));
                }
                l(v)
            }
        }
    }
    fn sorts(&mut self) -> S {
        let n = self.rng.below(4);
        l((0..n).map(|_| self.name()).collect())
    }
    fn variant(&mut self) -> S {
        let n = self.rng.below(3);
        let mut v = vec![self.name()];
        for _ in 0..n {
            v.push(self.name());
        }
        match self.rng.below(3) {
            0 => {
                self.hit("opt:variant-cost");
                v.push(a(":cost"));
                v.push(a(&self.rng.below(1000).to_string()));
            }
            1 => {
                self.hit("opt:variant-unextractable");
                v.push(a(":unextractable"));
            }
            _ => {}
        }
        l(v)
    }
    fn rule_opts(&mut self, v: &mut Vec<S>, kind: &str) {
        if self.rng.chance(1, 2) {
            self.hit(&format!("opt:{kind}:ruleset"));
            v.push(a(":ruleset"));
            v.push(self.name());
        }
        if self.rng.chance(1, 3) {
            self.hit(&format!("opt:{kind}:name"));
            v.push(a(":name"));
            // the empty name means "no name"
            let mut nm = self.string();
            while nm == S::Str(String::new()) {
                nm = self.string();
            }
            v.push(nm);
        }
    }
    fn command(&mut self) -> S {
        match self.rng.below(27) {
            0 => {
                self.hit("cmd:sort");
                l(vec![a("sort"), self.name()])
            }
            1 => {
                self.hit("cmd:sort-container");
                let n = 1 + self.rng.below(2);
                let mut c = vec![a(["Vec", "Set", "Map", "MultiSet", "Pair", "UnstableFn"][self.rng.below(6)])];
                for _ in 0..n {
                    c.push(self.expr(1));
                }
                l(vec![a("sort"), self.name(), l(c)])
            }
            2 => {
                self.hit("cmd:datatype");
                let n = self.rng.below(4);
                let mut v = vec![a("datatype"), self.name()];
                for _ in 0..n {
                    v.push(self.variant());
                }
                l(v)
            }
            3 => {
                self.hit("cmd:datatype*");
                let n = 1 + self.rng.below(3);
                let mut v = vec![a("datatype*")];
                for _ in 0..n {
                    if self.rng.chance(1, 3) {
                        v.push(l(vec![a("sort"), self.name(), l(vec![a("Vec"), self.name()])]));
                    } else {
                        let k = self.rng.below(3);
                        let mut d = vec![self.name()];
                        for _ in 0..k {
                            d.push(self.variant());
                        }
                        v.push(l(d));
                    }
                }
                l(v)
            }
            4 => {
                self.hit("cmd:constructor");
                let mut v = vec![a("constructor"), self.name(), self.sorts(), self.name()];
                if self.rng.chance(1, 2) {
                    self.hit("opt:constructor:cost");
                    v.push(a(":cost"));
                    v.push(a(&match self.rng.below(4) {
                        0 => "0".to_string(),
                        1 => (i64::MAX as u64).to_string(),
                        _ => self.rng.below(10000).to_string(),
                    }));
                }
                if self.rng.chance(1, 3) {
                    self.hit("opt:constructor:unextractable");
                    v.push(a(":unextractable"));
                }
                l(v)
            }
            5 => {
                self.hit("cmd:relation");
                l(vec![a("relation"), self.name(), self.sorts()])
            }
            6 => {
                self.hit("cmd:function");
                let mut v = vec![a("function"), self.name(), self.sorts(), self.name()];
                if self.rng.chance(1, 2) {
                    self.hit("opt:function:merge");
                    v.push(a(":merge"));
                    v.push(self.expr(2));
                } else {
                    self.hit("opt:function:no-merge");
                    v.push(a(":no-merge"));
                }
                if self.rng.chance(1, 4) {
                    self.hit("opt:function:unextractable");
                    v.push(a(":unextractable"));
                }
                l(v)
            }
            7 => {
                self.hit("cmd:ruleset");
                l(vec![a("ruleset"), self.name()])
            }
            8 => {
                self.hit("cmd:combined-ruleset");
                let n = 1 + self.rng.below(3);
                let mut v = vec![a("unstable-combined-ruleset"), self.name()];
                for _ in 0..n {
                    v.push(self.name());
                }
                l(v)
            }
            9 | 10 => {
                self.hit("cmd:rule");
                let body = self.facts(0);
                let nh = self.rng.below(3);
                let head: Vec<S> = (0..nh).map(|_| self.action()).collect();
                let mut v = vec![a("rule"), l(body), l(head)];
                self.rule_opts(&mut v, "rule");
                match self.rng.below(5) {
                    0 => {
                        self.hit("opt:rule:naive");
                        v.push(a(":naive"));
                    }
                    1 => {
                        self.hit("opt:rule:unsafe-seminaive");
                        v.push(a(":unsafe-seminaive"));
                    }
                    _ => {}
                }
                if self.rng.chance(1, 4) {
                    self.hit("opt:rule:no-decomp");
                    v.push(a(":no-decomp"));
                }
                l(v)
            }
            11 => {
                self.hit("cmd:rewrite");
                let mut v = vec![a("rewrite"), self.expr(2), self.expr(2)];
                if self.rng.chance(1, 3) {
                    self.hit("opt:rewrite:subsume");
                    v.push(a(":subsume"));
                }
                if self.rng.chance(1, 3) {
                    self.hit("opt:rewrite:when");
                    v.push(a(":when"));
                    v.push(l(self.facts(1)));
                }
                self.rule_opts(&mut v, "rewrite");
                l(v)
            }
            12 => {
                self.hit("cmd:birewrite");
                let mut v = vec![a("birewrite"), self.expr(2), self.expr(2)];
                if self.rng.chance(1, 3) {
                    self.hit("opt:birewrite:when");
                    v.push(a(":when"));
                    v.push(l(self.facts(1)));
                }
                self.rule_opts(&mut v, "birewrite");
                l(v)
            }
            13 | 14 => {
                self.hit("cmd:action");
                self.action()
            }
            15 => {
                self.hit("cmd:extract");
                l(vec![a("extract"), self.expr(2), if self.rng.chance(1, 2) { a(&self.rng.below(5).to_string()) } else { self.expr(1) }])
            }
            16 | 17 => {
                // the parser wraps the schedules of run-schedule in one `seq`; generate that
                // canonical form (the unwrapped spelling is covered by the sugar cases below)
                self.hit("cmd:run-schedule");
                let n = 1 + self.rng.below(3);
                let mut v = vec![a("run-schedule")];
                for _ in 0..n {
                    v.push(self.schedule(3));
                }
                l(v)
            }
            18 => {
                self.hit("cmd:check");
                let mut v = vec![a("check")];
                v.extend(self.facts(1));
                l(v)
            }
            19 => {
                self.hit("cmd:print-function");
                let mut v = vec![a("print-function"), self.name()];
                if self.rng.chance(2, 3) {
                    v.push(a(&self.rng.below(1000).to_string()));
                }
                if self.rng.chance(1, 3) {
                    self.hit("opt:print-function:mode");
                    v.push(a(":mode"));
                    v.push(a("csv"));
                }
                l(v)
            }
            20 => {
                self.hit("cmd:print-size");
                if self.rng.chance(1, 2) { l(vec![a("print-size")]) } else { l(vec![a("print-size"), self.name()]) }
            }
            21 => {
                self.hit("cmd:print-stats");
                l(vec![a("print-stats")])
            }
            22 => {
                self.hit("cmd:push-pop");
                l(vec![a(if self.rng.chance(1, 2) { "push" } else { "pop" }), a(&(1 + self.rng.below(3)).to_string())])
            }
            23 => {
                self.hit("cmd:fail");
                let inner = loop {
                    let c = self.command();
                    // push/pop cannot be wrapped; everything else can
                    if let S::L(v) = &c {
                        if !matches!(&v[0], S::A(h) if h == "push" || h == "pop") {
                            break c;
                        }
                    }
                };
                l(vec![a("fail"), inner])
            }
            24 => {
                self.hit("cmd:input-output");
                if self.rng.chance(1, 2) {
                    l(vec![a("input"), self.name(), S::Str("data/file-1.csv".into())])
                } else {
                    let n = 1 + self.rng.below(3);
                    let mut v = vec![a("output"), S::Str("out dir/result.txt".into())];
                    for _ in 0..n {
                        v.push(self.expr(2));
                    }
                    l(v)
                }
            }
            25 => {
                self.hit("cmd:prove");
                let mut v = vec![a("prove")];
                v.extend(self.facts(1));
                l(v)
            }
            _ => {
                self.hit("cmd:include");
                l(vec![a("include"), S::Str("some/path.egg".into())])
            }
        }
    }
}

fn parse_print(text: &str) -> Result<String, String> {
    let r = std::panic::catch_unwind(|| {
        let mut p = Parser::default();
        p.get_program_from_string(None, text).map(|cmds| cmds.iter().map(|c| c.to_string()).collect::<Vec<_>>().join("\n"))
    });
    match r {
        Ok(Ok(s)) => Ok(s),
        Ok(Err(e)) => Err(format!("parse error: {e}")),
        Err(p) => Err(format!("panic: {} @ {}", run::panic_message(p), run::last_panic_location())),
    }
}

pub fn run(a_: &Args) -> Report {
    let mut rep = Report::new(
        "C15",
        "syntax trees generated over the full command grammar (all options, hostile literals) are printed, parsed by egglog, printed by egglog and read back by an independent s-expression reader: the result must equal the generated tree modulo option order and numeric spelling; the printed form must be a fixpoint of parse;print. Extracted literals must re-parse to the bit-identical value. resolve_program output must re-run to the same outputs. Non-trivial/distinct = distinct printed command texts.",
    );
    let n = a_.cases(6000, 400000);
    let root = Rng::new(a_.seed);
    let mut counts = std::collections::BTreeMap::new();
    for case in 0..n {
        let mut rng = root.fork(case);
        let mut g = G { rng: &mut rng, counts: std::collections::BTreeMap::new() };
        let t = g.command();
        for (k, v) in g.counts {
            *counts.entry(k).or_insert(0) += v;
        }
        let text = t.text();
        rep.evaluations += 1;
        // `(prove)` with no facts and friends are printed specially; T is always non-empty here
        let p1 = match parse_print(&text) {
            Ok(p) => p,
            Err(e) => {
                rep.violation(&format!("C15:parse:{}", dump::fnv(&text)), &format!("generated command is rejected or panics: {e}"), &text);
                continue;
            }
        };
        rep.nontrivial(&p1);
        let back = read_all(&p1);
        let ok = match &back {
            Ok(v) if v.len() == 1 => same(&t, &v[0]),
            _ => false,
        };
        if !ok {
            if let Ok(v) = &back {
                if v.len() == 1 && same(&flatten_seq(&t), &flatten_seq(&v[0])) {
                    rep.count("known_seq_wrap_cases", 1);
                    if rep.counters["known_seq_wrap_cases"] > 1 {
                        continue;
                    }
                    rep.violation("C15:schedule-seq-wrap", &format!("print(parse(T)) wraps schedule bodies in an extra seq: `{}`", p1.replace('\n', " ")), &text);
                    continue;
                }
            }
            rep.violation(
                &format!("C15:roundtrip:{}", dump::fnv(&text)),
                &format!("print(parse(T)) is not T: printed `{}`", p1.replace('\n', " ")),
                &text,
            );
            continue;
        }
        match parse_print(&p1) {
            Ok(p2) if p2 == p1 => {}
            Ok(p2) => {
                let seq_only = match (read_all(&p1), read_all(&p2)) {
                    (Ok(x), Ok(y)) if x.len() == 1 && y.len() == 1 => same(&flatten_seq(&x[0]), &flatten_seq(&y[0])),
                    _ => false,
                };
                if seq_only {
                    rep.count("known_seq_wrap_cases", 1);
                    if rep.counters["known_seq_wrap_cases"] == 1 {
                        rep.violation("C15:schedule-seq-wrap", &format!("each parse/print round trip adds a seq layer: `{p1}` -> `{p2}`"), &text);
                    }
                } else {
                    rep.violation(&format!("C15:idempotence:{}", dump::fnv(&text)), &format!("print is not a fixpoint: `{p1}` -> `{p2}`"), &text);
                }
            }
            Err(e) => rep.violation(&format!("C15:reparse:{}", dump::fnv(&text)), &format!("printed text `{p1}` does not re-parse: {e}"), &text),
        }
        if case < 3 {
            rep.sample(json!({"tree": text, "printed": p1}));
        }
    }
    for (k, v) in &counts {
        rep.count(&format!("gen:{k}"), *v);
    }
    rep.count("grammar_productions_exercised", counts.len() as u64);
    rep.count("grammar_productions_min_count", counts.values().copied().min().unwrap_or(0));

    // (run R n [:until ..]) is parse-time sugar for run-schedule/repeat: checked by idempotence + value
    for case in 0..(n / 20).max(20) {
        let mut rng = root.fork(1_000_000 + case);
        let k = rng.below(100);
        let text = match rng.below(3) {
            0 => format!("(run rs {k})"),
            1 => format!("(run {k} :until (= (F 1) 2))"),
            _ => format!("(run-schedule (repeat {k} (run a)) (saturate (run b)))"),
        };
        match parse_print(&text) {
            Ok(p1) => {
                rep.count("run_sugar_cases", 1);
                let want_repeat = format!("(repeat {k} ");
                let fix = |t: &str| read_all(t).ok().map(|v| v.iter().map(flatten_seq).collect::<Vec<_>>());
                let stable = match parse_print(&p1) {
                    Ok(p2) => fix(&p1) == fix(&p2) && fix(&p1).is_some(),
                    Err(_) => false,
                };
                if !p1.contains(&want_repeat) || !stable {
                    rep.violation(&format!("C15:run-sugar:{}", dump::fnv(&text)), &format!("`{text}` printed as `{p1}`"), &text);
                }
            }
            Err(e) => rep.violation(&format!("C15:run-sugar:{}", dump::fnv(&text)), &e, &text),
        }
    }

    // extracted literals evaluate back to the same value
    let lits = n / 10;
    for case in 0..lits {
        let mut rng = root.fork(2_000_000 + case);
        let mut g = G { rng: &mut rng, counts: Default::default() };
        let (sort, lit) = match case % 3 {
            0 => ("i64", g.int()),
            1 => ("f64", g.float()),
            _ => ("String", g.string()),
        };
        let mut eg = EGraph::default();
        let prog = format!("(datatype W (Wrap {sort}))\n(let $v (Wrap {}))\n(extract $v)", lit.text());
        rep.count("literal_extractions", 1);
        match run::run(&mut eg, &prog) {
            Outcome::Ok(outs) => {
                let printed = outs.last().cloned().unwrap_or_default();
                let chk = format!("(check (= $v {}))", printed.trim());
                match run::run(&mut eg, &chk) {
                    Outcome::Ok(_) => {}
                    // NaN is not equal to itself by value, compare the spelling instead
                    _ if printed.contains("NaN") && lit.text() == "NaN" => {}
                    o => rep.violation(
                        &format!("C15:extract-literal:{}", dump::fnv(&prog)),
                        &format!("extracted term `{}` does not evaluate to the value it was extracted from: {}", printed.trim(), o.short()),
                        &format!("{prog}\n{chk}"),
                    ),
                }
            }
            o => rep.violation(&format!("C15:extract-literal:{}", dump::fnv(&prog)), &format!("program with hostile literal failed: {}", o.short()), &prog),
        }
    }

    // resolve_program output is a valid program with the same outputs
    let progs = (n / 40).max(30);
    for case in 0..progs {
        let mut rng = root.fork(3_000_000 + case);
        let cfg = GenCfg { containers: rng.chance(1, 3), subsume: rng.chance(1, 3), delete: rng.chance(1, 4), extracts: true, prints: true, costs: rng.chance(1, 3), pushpop: rng.chance(1, 4), ..Default::default() };
        let (_sig, cmds) = pgen::gen_history(&mut rng, &cfg);
        // keep the commands that succeed, so the program as a whole is valid
        let mut scratch = EGraph::default();
        let ok: Vec<String> = cmds.iter().map(|c| c.to_string()).filter(|t| run::run(&mut scratch, t).is_ok()).collect();
        let prog = ok.join("\n");
        let mut reference = EGraph::default();
        let want = run::run(&mut reference, &prog);
        let mut res = EGraph::default();
        let resolved = std::panic::catch_unwind(std::panic::AssertUnwindSafe(|| res.resolve_program(None, &prog)));
        rep.count("resolve_programs", 1);
        match resolved {
            Ok(Ok(cs)) => {
                let text = cs.iter().map(|c| c.to_string()).collect::<Vec<_>>().join("\n");
                let mut fresh = EGraph::default();
                fresh.ensure_no_reserved_symbols(false);
                let got = run::run(&mut fresh, &text);
                if got.norm() != want.norm() {
                    rep.violation(
                        &format!("C15:resolve:{}", dump::fnv(&prog)),
                        &format!("desugared program behaves differently: original {} / desugared {}", want.short(), got.short()),
                        &format!("{prog}\n; ---- resolved ----\n{text}"),
                    );
                }
            }
            Ok(Err(e)) => rep.violation(&format!("C15:resolve:{}", dump::fnv(&prog)), &format!("resolve_program rejects a valid program: {e}"), &prog),
            Err(p) => rep.violation(&format!("C15:resolve:{}", dump::fnv(&prog)), &format!("resolve_program panicked: {}", run::panic_message(p)), &prog),
        }
    }
    rep
}
