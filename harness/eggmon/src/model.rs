//! Reference model: a deliberately naive interpreter for the monotone fragment the
//! generators produce (constructors, relations, min/max functions over i64, lets,
//! unions, sets, subsume, rules / rewrites, runs and schedules).
//!
//! * equality: explicit parent vector, representative = minimum id; congruence closure by
//!   a rebuild fixpoint that groups rows by canonical key;
//! * matching: nested loops over all non-subsumed rows, modulo the partition;
//! * one iteration of a ruleset: all matches against the database as it stood when the
//!   iteration began, then all heads, then rebuild.
//!
//! The model renders itself as a `dump::Dump`, so "equal up to renaming of e-class ids"
//! is decided by the same canonical naming that is applied to the engine's dump.
use crate::dump::{Dump, Row, Table, V};
use crate::pgen::{Act, Cmd, Fact, Merge, Sched, Sig, T, Ty};
use std::collections::{BTreeMap, BTreeSet, HashMap};

#[derive(Clone, Copy, Debug, PartialEq, Eq, Hash, PartialOrd, Ord)]
pub enum MV {
    Id(usize),
    Int(i64),
}

#[derive(Clone, Copy, Debug, PartialEq, Eq)]
pub enum Kind {
    Ctor,
    Rel,
    Func(Merge),
    Let,
}

#[derive(Clone, Debug, PartialEq, Eq, PartialOrd, Ord)]
pub struct MRow {
    pub args: Vec<MV>,
    pub out: MV,
    pub subsumed: bool,
}

#[derive(Clone, Debug)]
pub struct MTable {
    pub kind: Kind,
    pub in_sorts: Vec<String>,
    pub out_sort: String,
    pub rows: Vec<MRow>,
    /// key (as stored) -> row position; a hit is always right, a miss falls back to a scan
    /// while unions are pending (stored keys may be stale until the next rebuild)
    pub index: HashMap<Vec<MV>, usize>,
}

#[derive(Clone, Debug)]
pub struct MRule {
    pub ruleset: String,
    pub body: Vec<Fact>,
    pub head: Vec<Act>,
}

pub type Env = BTreeMap<String, MV>;

#[derive(Clone, Debug)]
pub struct Model {
    pub parent: Vec<usize>,
    pub id_sort: Vec<String>,
    pub tables: BTreeMap<String, MTable>,
    pub rules: Vec<MRule>,
    pub unions_asserted: u64,
    pub matches_applied: u64,
    /// unions happened since the last rebuild
    pub dirty: bool,
}

#[derive(Debug)]
pub enum Unsupported {
    Cmd(String),
    LookupFailed(String),
    TooBig,
}

/// A body atom after flattening: table name, argument leaves, output leaf.
#[derive(Clone, Debug)]
pub struct Atom {
    pub table: String,
    pub args: Vec<Leaf>,
    pub out: Leaf,
}

#[derive(Clone, Debug, PartialEq, Eq)]
pub enum Leaf {
    Var(String),
    Int(i64),
    /// matches anything (relation outputs)
    Any,
}

#[derive(Clone, Debug, Default)]
pub struct Query {
    pub atoms: Vec<Atom>,
    /// pairs of leaves that must be equal
    pub eqs: Vec<(Leaf, Leaf)>,
    /// primitive guards, evaluated when every variable is bound
    pub guards: Vec<T>,
}

impl Model {
    pub fn new(sig: &Sig) -> Model {
        let mut tables = BTreeMap::new();
        for c in &sig.ctors {
            tables.insert(
                c.name.clone(),
                MTable { kind: Kind::Ctor, in_sorts: c.args.iter().map(|t| sig.ty_name(t)).collect(), out_sort: sig.sorts[c.out].clone(), rows: vec![], index: HashMap::new() },
            );
        }
        for r in &sig.rels {
            tables.insert(
                r.name.clone(),
                MTable { kind: Kind::Rel, in_sorts: r.args.iter().map(|t| sig.ty_name(t)).collect(), out_sort: format!("@{}Sort", r.name), rows: vec![], index: HashMap::new() },
            );
        }
        for f in &sig.funcs {
            tables.insert(
                f.name.clone(),
                MTable { kind: Kind::Func(f.merge), in_sorts: f.args.iter().map(|t| sig.ty_name(t)).collect(), out_sort: "i64".into(), rows: vec![], index: HashMap::new() },
            );
        }
        Model { parent: vec![], id_sort: vec![], tables, rules: vec![], unions_asserted: 0, matches_applied: 0, dirty: false }
    }

    /// Add a relation that is not part of the generated signature (probe / output relations).
    pub fn add_relation(&mut self, name: &str, in_sorts: Vec<String>) {
        self.tables.insert(name.to_string(), MTable { kind: Kind::Rel, in_sorts, out_sort: format!("@{name}Sort"), rows: vec![], index: HashMap::new() });
    }

    pub fn find(&self, mut x: usize) -> usize {
        while self.parent[x] != x {
            x = self.parent[x];
        }
        x
    }

    pub fn canon(&self, v: MV) -> MV {
        match v {
            MV::Id(i) => MV::Id(self.find(i)),
            o => o,
        }
    }

    fn fresh(&mut self, sort: &str) -> usize {
        self.parent.push(self.parent.len());
        self.id_sort.push(sort.to_string());
        self.parent.len() - 1
    }

    pub fn union(&mut self, a: usize, b: usize) -> bool {
        let (ra, rb) = (self.find(a), self.find(b));
        if ra == rb {
            return false;
        }
        let (k, d) = (ra.min(rb), ra.max(rb));
        self.parent[d] = k;
        self.dirty = true;
        true
    }

    pub fn total_rows(&self) -> usize {
        self.tables.values().map(|t| t.rows.len()).sum()
    }

    /// Congruence closure + lattice merges + canonical rows, to a fixpoint.
    pub fn rebuild(&mut self) {
        loop {
            let mut changed = false;
            let names: Vec<String> = self.tables.keys().cloned().collect();
            for n in names {
                let t = self.tables.get(&n).unwrap().clone();
                let mut by_key: HashMap<Vec<MV>, MRow> = HashMap::new();
                let mut order: Vec<Vec<MV>> = vec![];
                let mut unions: Vec<(usize, usize)> = vec![];
                for r in &t.rows {
                    let key: Vec<MV> = r.args.iter().map(|v| self.canon(*v)).collect();
                    let out = self.canon(r.out);
                    if key != r.args || out != r.out {
                        changed = true;
                    }
                    match by_key.get_mut(&key) {
                        None => {
                            order.push(key.clone());
                            by_key.insert(key.clone(), MRow { args: key, out, subsumed: r.subsumed });
                        }
                        Some(prev) => {
                            changed = true;
                            prev.subsumed |= r.subsumed;
                            match (t.kind, prev.out, out) {
                                (Kind::Func(Merge::Min), MV::Int(a), MV::Int(b)) => prev.out = MV::Int(a.min(b)),
                                (Kind::Func(Merge::Max), MV::Int(a), MV::Int(b)) => prev.out = MV::Int(a.max(b)),
                                (_, MV::Id(a), MV::Id(b)) => {
                                    if a != b {
                                        unions.push((a, b));
                                    }
                                }
                                (_, a, b) => {
                                    // :no-merge with equal values is fine; unequal is outside the fragment
                                    debug_assert_eq!(a, b);
                                }
                            }
                        }
                    }
                }
                let rows: Vec<MRow> = order.into_iter().map(|k| by_key.remove(&k).unwrap()).collect();
                let tm = self.tables.get_mut(&n).unwrap();
                tm.index = rows.iter().enumerate().map(|(i, r)| (r.args.clone(), i)).collect();
                tm.rows = rows;
                for (a, b) in unions {
                    if self.union(a, b) {
                        changed = true;
                    }
                }
            }
            if !changed {
                break;
            }
        }
        self.dirty = false;
    }

    fn lookup_row(&self, table: &str, key: &[MV]) -> Option<usize> {
        let t = self.tables.get(table)?;
        let ck: Vec<MV> = key.iter().map(|v| self.canon(*v)).collect();
        if let Some(i) = t.index.get(&ck) {
            return Some(*i);
        }
        if !self.dirty {
            return None;
        }
        t.rows.iter().position(|r| r.args.len() == key.len() && r.args.iter().zip(key).all(|(a, b)| self.canon(*a) == self.canon(*b)))
    }

    /// Evaluate a ground/head term, creating constructor and relation rows as needed.
    pub fn eval_mk(&mut self, t: &T, env: &Env) -> Result<MV, Unsupported> {
        match t {
            T::Int(i) => Ok(MV::Int(*i)),
            T::Var(v) => env
                .get(v)
                .copied()
                .or_else(|| self.tables.get(v).filter(|t| t.kind == Kind::Let).and_then(|t| t.rows.first()).map(|r| r.out))
                .map(|v| self.canon(v))
                .ok_or_else(|| Unsupported::LookupFailed(format!("unbound {v}"))),
            T::Prim(op, args) => {
                let vals: Result<Vec<MV>, _> = args.iter().map(|a| self.eval_mk(a, env)).collect();
                prim(op, &vals?).ok_or_else(|| Unsupported::Cmd(format!("primitive {op}")))
            }
            T::App(name, args) => {
                let mut vals = vec![];
                for a in args {
                    vals.push(self.eval_mk(a, env)?);
                }
                let kind = self.tables.get(name).ok_or_else(|| Unsupported::Cmd(format!("unknown table {name}")))?.kind;
                if let Some(i) = self.lookup_row(name, &vals) {
                    let out = self.tables[name].rows[i].out;
                    return Ok(self.canon(out));
                }
                match kind {
                    Kind::Ctor | Kind::Rel => {
                        let sort = self.tables[name].out_sort.clone();
                        let id = self.fresh(&sort);
                        let tm = self.tables.get_mut(name).unwrap();
                        tm.index.insert(vals.clone(), tm.rows.len());
                        tm.rows.push(MRow { args: vals, out: MV::Id(id), subsumed: false });
                        Ok(MV::Id(id))
                    }
                    _ => Err(Unsupported::LookupFailed(format!("({name} ..) has no value"))),
                }
            }
        }
    }

    /// Evaluate without creating anything (check / query side). None = some sub-term is absent.
    pub fn eval_lookup(&self, t: &T, env: &Env) -> Option<MV> {
        match t {
            T::Int(i) => Some(MV::Int(*i)),
            T::Var(v) => env
                .get(v)
                .copied()
                .or_else(|| self.tables.get(v).filter(|t| t.kind == Kind::Let).and_then(|t| t.rows.first()).map(|r| r.out))
                .map(|v| self.canon(v)),
            T::Prim(op, args) => {
                let vals: Option<Vec<MV>> = args.iter().map(|a| self.eval_lookup(a, env)).collect();
                prim(op, &vals?)
            }
            T::App(name, args) => {
                let vals: Option<Vec<MV>> = args.iter().map(|a| self.eval_lookup(a, env)).collect();
                let vals = vals?;
                let i = self.lookup_row(name, &vals)?;
                Some(self.canon(self.tables[name].rows[i].out))
            }
        }
    }

    pub fn set(&mut self, name: &str, key: Vec<MV>, val: MV) {
        let key: Vec<MV> = key.into_iter().map(|v| self.canon(v)).collect();
        let kind = self.tables[name].kind;
        match self.lookup_row(name, &key) {
            Some(i) => {
                let cur = self.tables[name].rows[i].out;
                let new = match (kind, cur, val) {
                    (Kind::Func(Merge::Min), MV::Int(a), MV::Int(b)) => MV::Int(a.min(b)),
                    (Kind::Func(Merge::Max), MV::Int(a), MV::Int(b)) => MV::Int(a.max(b)),
                    (_, a, _) => a,
                };
                self.tables.get_mut(name).unwrap().rows[i].out = new;
            }
            None => {
                let tm = self.tables.get_mut(name).unwrap();
                tm.index.insert(key.clone(), tm.rows.len());
                tm.rows.push(MRow { args: key, out: val, subsumed: false });
            }
        }
    }

    pub fn act(&mut self, a: &Act, env: &mut Env) -> Result<(), Unsupported> {
        match a {
            Act::Expr(t) => {
                self.eval_mk(t, env)?;
            }
            Act::Union(x, y) => {
                let vx = self.eval_mk(x, env)?;
                let vy = self.eval_mk(y, env)?;
                if let (MV::Id(p), MV::Id(q)) = (vx, vy) {
                    self.unions_asserted += 1;
                    self.union(p, q);
                }
            }
            Act::Set(f, args, v) => {
                let mut key = vec![];
                for x in args {
                    key.push(self.eval_mk(x, env)?);
                }
                let val = self.eval_mk(v, env)?;
                self.set(f, key, val);
            }
            Act::Subsume(t) => {
                if let T::App(name, args) = t {
                    let mut key = vec![];
                    for x in args {
                        key.push(self.eval_mk(x, env)?);
                    }
                    // insert when absent (plain-engine behaviour), then flag
                    self.eval_mk(&T::App(name.clone(), args.clone()), env)?;
                    let i = self.lookup_row(name, &key).unwrap();
                    self.tables.get_mut(name).unwrap().rows[i].subsumed = true;
                } else {
                    return Err(Unsupported::Cmd("subsume of non-application".into()));
                }
            }
            Act::Let(name, t) => {
                let v = self.eval_mk(t, env)?;
                if name.starts_with('$') {
                    let sort = match v {
                        MV::Id(i) => self.id_sort[i].clone(),
                        MV::Int(_) => "i64".into(),
                    };
                    self.tables.insert(name.clone(), MTable { kind: Kind::Let, in_sorts: vec![], out_sort: sort, rows: vec![MRow { args: vec![], out: v, subsumed: false }], index: HashMap::new() });
                } else {
                    env.insert(name.clone(), v);
                }
            }
            Act::Delete(_) | Act::Panic(_) => return Err(Unsupported::Cmd(a.to_string())),
        }
        Ok(())
    }

    // ---------------------------------------------------------------- matching

    fn flatten_term(t: &T, q: &mut Query, counter: &mut usize, out: Option<Leaf>) -> Leaf {
        match t {
            T::Int(i) => Leaf::Int(*i),
            T::Var(v) => Leaf::Var(v.clone()),
            T::Prim(..) => {
                // primitive terms inside patterns are outside the generated fragment
                q.guards.push(T::Prim("@unsupported".into(), vec![]));
                Leaf::Any
            }
            T::App(name, args) => {
                let leaves: Vec<Leaf> = args.iter().map(|a| Self::flatten_term(a, q, counter, None)).collect();
                let o = out.unwrap_or_else(|| {
                    *counter += 1;
                    Leaf::Var(format!("@t{}", *counter))
                });
                q.atoms.push(Atom { table: name.clone(), args: leaves, out: o.clone() });
                o
            }
        }
    }

    pub fn compile_body(&self, body: &[Fact]) -> Query {
        let mut q = Query::default();
        let mut counter = 0usize;
        for f in body {
            match f {
                Fact::Atom(T::Prim(op, args)) => q.guards.push(T::Prim(op.clone(), args.clone())),
                Fact::Atom(t) => {
                    Self::flatten_term(t, &mut q, &mut counter, None);
                }
                Fact::Eq(a, b) => {
                    // (= v (C ..)): the variable names the application's output directly
                    match (a, b) {
                        (T::Var(v), app @ T::App(..)) | (app @ T::App(..), T::Var(v)) => {
                            Self::flatten_term(app, &mut q, &mut counter, Some(Leaf::Var(v.clone())));
                        }
                        _ => {
                            let la = Self::flatten_term(a, &mut q, &mut counter, None);
                            let lb = Self::flatten_term(b, &mut q, &mut counter, None);
                            q.eqs.push((la, lb));
                        }
                    }
                }
            }
        }
        q
    }

    fn bind(&self, leaf: &Leaf, v: MV, env: &mut Env) -> bool {
        let v = self.canon(v);
        match leaf {
            Leaf::Any => true,
            Leaf::Int(i) => v == MV::Int(*i),
            Leaf::Var(name) => match env.get(name) {
                Some(cur) => self.canon(*cur) == v,
                None => {
                    // a global used inside a pattern is a constant
                    if name.starts_with('$') {
                        if let Some(t) = self.tables.get(name) {
                            return t.rows.first().map(|r| self.canon(r.out)) == Some(v);
                        }
                    }
                    env.insert(name.clone(), v);
                    true
                }
            },
        }
    }

    /// All substitutions satisfying the query (as a set), nested loops, subsumed rows excluded.
    pub fn matches(&self, q: &Query, cap: usize) -> Result<Vec<Env>, Unsupported> {
        if q.guards.iter().any(|g| matches!(g, T::Prim(op, _) if op == "@unsupported")) {
            return Err(Unsupported::Cmd("primitive inside a pattern".into()));
        }
        let mut envs: Vec<Env> = vec![Env::new()];
        for atom in &q.atoms {
            let t = match self.tables.get(&atom.table) {
                Some(t) => t,
                None => return Err(Unsupported::Cmd(format!("unknown table {}", atom.table))),
            };
            let mut next = vec![];
            for env in &envs {
                for r in &t.rows {
                    if r.subsumed || r.args.len() != atom.args.len() {
                        continue;
                    }
                    let mut e = env.clone();
                    let mut ok = true;
                    for (leaf, v) in atom.args.iter().zip(r.args.iter()) {
                        if !self.bind(leaf, *v, &mut e) {
                            ok = false;
                            break;
                        }
                    }
                    if ok && self.bind(&atom.out, r.out, &mut e) {
                        next.push(e);
                        if next.len() > cap {
                            return Err(Unsupported::TooBig);
                        }
                    }
                }
            }
            envs = next;
        }
        let leafval = |l: &Leaf, e: &Env| -> Option<MV> {
            match l {
                Leaf::Int(i) => Some(MV::Int(*i)),
                Leaf::Var(v) => e
                    .get(v)
                    .copied()
                    .or_else(|| self.tables.get(v).filter(|t| t.kind == Kind::Let).and_then(|t| t.rows.first()).map(|r| r.out))
                    .map(|x| self.canon(x)),
                Leaf::Any => None,
            }
        };
        envs.retain(|e| {
            q.eqs.iter().all(|(a, b)| match (leafval(a, e), leafval(b, e)) {
                (Some(x), Some(y)) => x == y,
                _ => false,
            }) && q.guards.iter().all(|g| matches!(self.eval_lookup(g, e), Some(MV::Int(1))))
        });
        // set semantics; internal @t variables are functionally determined, keep them
        let set: BTreeSet<Env> = envs.into_iter().collect();
        Ok(set.into_iter().collect())
    }

    pub fn add_rule(&mut self, c: &Cmd) -> Result<(), Unsupported> {
        match c {
            Cmd::Rule { body, head, opts } => {
                self.rules.push(MRule { ruleset: opts.ruleset.clone(), body: body.clone(), head: head.clone() });
                Ok(())
            }
            Cmd::Rewrite { lhs, rhs, subsume, when, ruleset, bi } => {
                let mk = |l: &T, r: &T, sub: bool| {
                    let mut body = vec![Fact::Eq(T::Var("@root".into()), l.clone())];
                    body.extend(when.iter().cloned());
                    let mut head = vec![Act::Union(T::Var("@root".into()), r.clone())];
                    if sub {
                        head.push(Act::Subsume(l.clone()));
                    }
                    MRule { ruleset: ruleset.clone(), body, head }
                };
                self.rules.push(mk(lhs, rhs, *subsume));
                if *bi {
                    self.rules.push(mk(rhs, lhs, false));
                }
                Ok(())
            }
            _ => Err(Unsupported::Cmd("not a rule".into())),
        }
    }

    fn snapshot(&self) -> Vec<(String, Vec<MRow>)> {
        self.tables
            .iter()
            .map(|(n, t)| {
                let mut rows = t.rows.clone();
                rows.sort();
                (n.clone(), rows)
            })
            .collect()
    }

    /// One iteration of a ruleset. Returns whether the database changed.
    pub fn step(&mut self, ruleset: &str, cap: usize) -> Result<bool, Unsupported> {
        let before = self.snapshot();
        let rules: Vec<MRule> = self.rules.iter().filter(|r| r.ruleset == ruleset).cloned().collect();
        let mut all: Vec<(usize, Vec<Env>)> = vec![];
        for (i, r) in rules.iter().enumerate() {
            let q = self.compile_body(&r.body);
            all.push((i, self.matches(&q, cap)?));
        }
        for (i, envs) in all {
            for e in envs {
                let mut env = e.clone();
                for a in &rules[i].head {
                    self.act(a, &mut env)?;
                }
                self.matches_applied += 1;
            }
            if self.total_rows() > 20000 {
                return Err(Unsupported::TooBig);
            }
        }
        self.rebuild();
        Ok(self.snapshot() != before)
    }

    pub fn run(&mut self, ruleset: &str, n: u32, cap: usize) -> Result<bool, Unsupported> {
        let mut any = false;
        for _ in 0..n {
            if !self.step(ruleset, cap)? {
                break;
            }
            any = true;
        }
        Ok(any)
    }

    pub fn schedule(&mut self, s: &Sched, cap: usize) -> Result<bool, Unsupported> {
        match s {
            Sched::Run(r, None) => self.step(r, cap),
            Sched::Run(_, Some(_)) => Err(Unsupported::Cmd(":until".into())),
            Sched::Seq(v) => {
                let mut any = false;
                for x in v {
                    any |= self.schedule(x, cap)?;
                }
                Ok(any)
            }
            Sched::Repeat(n, v) => {
                let mut any = false;
                for _ in 0..*n {
                    let mut ch = false;
                    for x in v {
                        ch |= self.schedule(x, cap)?;
                    }
                    if !ch {
                        break;
                    }
                    any = true;
                }
                Ok(any)
            }
            Sched::Saturate(v) => {
                let mut any = false;
                for it in 0.. {
                    if it > 300 {
                        return Err(Unsupported::TooBig);
                    }
                    let mut ch = false;
                    for x in v {
                        ch |= self.schedule(x, cap)?;
                    }
                    if !ch {
                        break;
                    }
                    any = true;
                }
                Ok(any)
            }
        }
    }

    /// Does the conjunction of facts have a match (the meaning of `check`)?
    pub fn check(&self, facts: &[Fact]) -> Result<bool, Unsupported> {
        let q = self.compile_body(facts);
        // `check` sees subsumed rows too
        let mut m = self.clone();
        for t in m.tables.values_mut() {
            for r in t.rows.iter_mut() {
                r.subsumed = false;
            }
        }
        Ok(!m.matches(&q, 200000)?.is_empty())
    }

    /// Interpret one command. Ok(Some(b)) for check commands (the expected outcome).
    pub fn command(&mut self, c: &Cmd, cap: usize) -> Result<Option<bool>, Unsupported> {
        match c {
            Cmd::Decl(_) => Ok(None),
            Cmd::Act(a) => {
                let mut env = Env::new();
                self.act(a, &mut env)?;
                self.rebuild();
                Ok(None)
            }
            Cmd::Rule { .. } | Cmd::Rewrite { .. } => {
                self.add_rule(c)?;
                Ok(None)
            }
            Cmd::Run(r, n) => {
                self.run(r, *n, cap)?;
                Ok(None)
            }
            Cmd::RunSchedule(s) => {
                self.schedule(s, cap)?;
                Ok(None)
            }
            Cmd::Check(f) => Ok(Some(self.check(f)?)),
            Cmd::FailCheck(f) => Ok(Some(!self.check(f)?)),
            Cmd::PrintSize(_) | Cmd::PrintFunction(_) | Cmd::Extract(_) => Ok(None),
            Cmd::Push | Cmd::Pop | Cmd::Raw(_) => Err(Unsupported::Cmd(c.to_string())),
        }
    }

    // ---------------------------------------------------------------- rendering

    pub fn to_dump(&self) -> Dump {
        let mut tables = vec![];
        for (name, t) in &self.tables {
            let rv = |v: MV, sort: &str| -> V {
                match v {
                    MV::Id(i) => {
                        let c = self.find(i) as u32;
                        V::Id(self.id_sort[i].clone(), i as u32, c)
                    }
                    MV::Int(x) => {
                        let _ = sort;
                        V::Base(x.to_string())
                    }
                }
            };
            let rows = t
                .rows
                .iter()
                .map(|r| {
                    let mut vals: Vec<V> = r.args.iter().zip(t.in_sorts.iter()).map(|(v, s)| rv(*v, s)).collect();
                    vals.push(rv(r.out, &t.out_sort));
                    Row { vals, subsumed: r.subsumed }
                })
                .collect();
            tables.push(Table {
                name: name.clone(),
                is_constructor: matches!(t.kind, Kind::Ctor | Kind::Rel),
                is_let: t.kind == Kind::Let,
                in_sorts: t.in_sorts.clone(),
                out_sort: t.out_sort.clone(),
                out_is_eq: t.out_sort != "i64",
                rows,
            });
        }
        Dump { tables }
    }

    /// Is the partition a congruence on the tables, and are all rows canonical and keys unique?
    /// (Self-check of the model: the least-fixpoint claim rests on it.)
    pub fn self_check(&self) -> Vec<String> {
        let mut bad = vec![];
        for (n, t) in &self.tables {
            let mut seen: HashMap<Vec<MV>, MV> = HashMap::new();
            for r in &t.rows {
                let key: Vec<MV> = r.args.iter().map(|v| self.canon(*v)).collect();
                if key != r.args || self.canon(r.out) != r.out {
                    bad.push(format!("model row of {n} not canonical"));
                }
                if let Some(prev) = seen.insert(key, r.out) {
                    let _ = prev;
                    bad.push(format!("model table {n} has two rows for one key"));
                }
            }
        }
        bad
    }
}

pub fn prim(op: &str, v: &[MV]) -> Option<MV> {
    let b = |x: bool| Some(MV::Int(x as i64));
    match (op, v) {
        ("+", [MV::Int(a), MV::Int(b)]) => a.checked_add(*b).map(MV::Int),
        ("-", [MV::Int(a), MV::Int(b)]) => a.checked_sub(*b).map(MV::Int),
        ("*", [MV::Int(a), MV::Int(b)]) => a.checked_mul(*b).map(MV::Int),
        ("min", [MV::Int(a), MV::Int(b)]) => Some(MV::Int(*a.min(b))),
        ("max", [MV::Int(a), MV::Int(b)]) => Some(MV::Int(*a.max(b))),
        ("<", [MV::Int(a), MV::Int(c)]) => b(a < c),
        ("<=", [MV::Int(a), MV::Int(c)]) => b(a <= c),
        (">", [MV::Int(a), MV::Int(c)]) => b(a > c),
        (">=", [MV::Int(a), MV::Int(c)]) => b(a >= c),
        ("!=", [x, y]) => b(x != y),
        _ => None,
    }
}

/// Ground terms over the signature up to a depth bound (for pairwise equality questions).
pub fn ground_terms(sig: &Sig, sort: usize, depth: usize, limit: usize) -> Vec<T> {
    let mut by_sort: Vec<Vec<T>> = vec![vec![]; sig.sorts.len()];
    for d in 0..=depth {
        let prev = by_sort.clone();
        for c in &sig.ctors {
            if c.args.iter().any(|a| matches!(a, Ty::Cont(_))) {
                continue;
            }
            if d == 0 && !c.args.is_empty() {
                continue;
            }
            if d > 0 && c.args.is_empty() {
                continue;
            }
            // cartesian product over argument choices (bounded)
            let mut combos: Vec<Vec<T>> = vec![vec![]];
            for a in &c.args {
                let choices: Vec<T> = match a {
                    Ty::I64 => (0..3).map(T::Int).collect(),
                    Ty::Eq(s) => prev[*s].iter().take(6).cloned().collect(),
                    Ty::Cont(_) => vec![],
                };
                let mut next = vec![];
                for co in &combos {
                    for ch in &choices {
                        if next.len() >= limit * 2 {
                            break;
                        }
                        let mut x = co.clone();
                        x.push(ch.clone());
                        next.push(x);
                    }
                }
                combos = next;
            }
            for co in combos {
                let t = T::App(c.name.clone(), co);
                if !by_sort[c.out].contains(&t) && by_sort[c.out].len() < limit {
                    by_sort[c.out].push(t);
                }
            }
        }
    }
    by_sort[sort].clone()
}

impl Model {
    /// A model whose tables are the rows of an engine dump (ids = the engine's canonical
    /// ids, identity partition). Used as the match oracle over "the database as it stood".
    /// Returns None when the dump holds values the model does not represent.
    pub fn from_dump(d: &Dump) -> Option<Model> {
        let mut max_id = 0usize;
        fn scan(v: &V, max_id: &mut usize) {
            if let V::Id(_, raw, c) = v {
                *max_id = (*max_id).max(*raw as usize).max(*c as usize);
            }
        }
        for t in &d.tables {
            for r in &t.rows {
                for v in &r.vals {
                    scan(v, &mut max_id);
                }
            }
        }
        let mut m = Model { parent: (0..=max_id).collect(), id_sort: vec![String::new(); max_id + 1], tables: BTreeMap::new(), rules: vec![], unions_asserted: 0, matches_applied: 0, dirty: false };
        for t in &d.tables {
            let mut rows = vec![];
            for r in &t.rows {
                let mut vals = vec![];
                for v in &r.vals {
                    vals.push(match v {
                        V::Id(s, _, c) => {
                            m.id_sort[*c as usize] = s.clone();
                            MV::Id(*c as usize)
                        }
                        V::Base(b) => MV::Int(b.parse::<i64>().ok()?),
                        V::Cont(..) => return None,
                    });
                }
                let out = vals.pop()?;
                rows.push(MRow { args: vals, out, subsumed: r.subsumed });
            }
            let kind = if t.is_let {
                Kind::Let
            } else if t.is_constructor {
                Kind::Ctor
            } else {
                Kind::Func(Merge::Min)
            };
            let index = rows.iter().enumerate().map(|(i, r)| (r.args.clone(), i)).collect();
            m.tables.insert(t.name.clone(), MTable { kind, in_sorts: t.in_sorts.clone(), out_sort: t.out_sort.clone(), rows, index });
        }
        Some(m)
    }
}
