//! C03 — semi-naive evaluation is observationally identical to naive evaluation.
//!
//! Oracle: purely differential (engine vs itself). Two e-graphs receive the same
//! monotone history, one with seminaive on, one off; every `(run r n)` is driven
//! one iteration at a time on both and the canonical dumps are compared after
//! every iteration.
use crate::dump::{self, Dump};
use crate::out::Report;
use crate::pgen::{self, Cmd, GenCfg, Sched};
use crate::rng::Rng;
use crate::run::{self, Outcome};
use crate::Args;
use egglog::EGraph;
use serde_json::json;

pub fn canon(eg: &EGraph) -> String {
    dump::register_unordered_from(eg);
    Dump::take(eg, false).canonical()
}

/// Flatten a schedule into single-iteration steps where that is semantics-preserving
/// for comparison purposes: we simply run the same schedule text on both sides,
/// but `(run r n)` commands are unrolled into n `(run r 1)` steps.
fn steps_of(c: &Cmd) -> Vec<String> {
    match c {
        Cmd::Run(r, n) => (0..*n).map(|_| Cmd::Run(r.clone(), 1).to_string()).collect(),
        Cmd::RunSchedule(Sched::Repeat(n, inner)) if inner.len() == 1 => {
            (0..*n).map(|_| Cmd::RunSchedule(inner[0].clone()).to_string()).collect()
        }
        other => vec![other.to_string()],
    }
}

pub fn first_diff(a: &str, b: &str) -> String {
    let la: Vec<&str> = a.lines().collect();
    let lb: Vec<&str> = b.lines().collect();
    let sa: std::collections::BTreeSet<&str> = la.iter().copied().collect();
    let sb: std::collections::BTreeSet<&str> = lb.iter().copied().collect();
    let only_a: Vec<&&str> = sa.difference(&sb).take(4).collect();
    let only_b: Vec<&&str> = sb.difference(&sa).take(4).collect();
    format!("only in first: {:?}; only in second: {:?}", only_a, only_b)
}

pub fn run(a: &Args) -> Report {
    let mut rep = Report::new(
        "C03",
        "monotone generated histories (inserts, unions, lattice sets, lets, rules/rewrites incl. :subsume, containers) run on a seminaive and a naive e-graph in lock-step, one iteration per step; canonical dumps (ids renamed by least term) compared after every step. Non-trivial = a history in which at least one rule iteration changed the database; distinct by the final canonical dump.",
    );
    let n = a.cases(600, 30000);
    let root = Rng::new(a.seed);
    for case in 0..n {
        let mut rng = root.fork(case);
        if std::env::var("VERIF_TRACE").is_ok() {
            eprintln!("case {case}");
        }
        let cfg = GenCfg {
            containers: rng.chance(1, 3),
            nested_containers: rng.chance(1, 3),
            subsume: rng.chance(1, 3),
            n_cmds: (10, 28),
            ..Default::default()
        };
        let (_sig, cmds) = pgen::gen_history(&mut rng, &cfg);
        let mut semi = EGraph::new(a.threads);
        let mut naive = EGraph::new(a.threads);
        naive.seminaive = false;
        let mut log: Vec<String> = vec![];
        let mut rule_changed = false;
        let mut bad = false;
        'outer: for c in cmds.iter() {
            for text in steps_of(c) {
                if run::skip_run_on_large_db(&semi, &text) {
                    rep.count("runs_skipped_large_db", 1);
                    continue;
                }
                let is_run = text.starts_with("(run");
                let before = if is_run { semi.num_tuples() } else { 0 };
                if std::env::var("VERIF_TRACE").is_ok() {
                    eprintln!("  [{}] {text}", semi.num_tuples());
                }
                let o1 = run::run(&mut semi, &text);
                let o2 = run::run(&mut naive, &text);
                log.push(text.clone());
                rep.count("steps", 1);
                if is_run {
                    rep.count("iterations_compared", 1);
                    if semi.num_tuples() != before {
                        rule_changed = true;
                    }
                }
                if let (Outcome::Panic(_), _) | (_, Outcome::Panic(_)) = (&o1, &o2) {
                    // panics are C09's business; stop this case
                    rep.inconclusive(&format!("panic during C03 case: {} / {}", o1.short(), o2.short()));
                    bad = true;
                    break 'outer;
                }
                if semi.num_tuples() > 4000 {
                    rep.count("histories_truncated_large_db", 1);
                    break 'outer;
                }
                let d1 = canon(&semi);
                let d2 = canon(&naive);
                if o1.kind() != o2.kind() || d1 != d2 {
                    let replay = log.join("\n");
                    rep.violation(
                        &format!("C03:{}", dump::fnv(&replay)),
                        &format!(
                            "seminaive and naive diverge after step `{text}`: outcomes {} vs {}; {}",
                            o1.short(),
                            o2.short(),
                            first_diff(&d1, &d2)
                        ),
                        &replay,
                    );
                    bad = true;
                    break 'outer;
                }
            }
        }
        rep.evaluations += 1;
        if !bad && rule_changed {
            rep.count("histories_with_rule_progress", 1);
            rep.nontrivial(&canon(&semi));
        }
        if case < 2 {
            rep.sample(json!({"history": log}));
        }
    }
    rep
}
