//! C13 — subsumed rows stop matching and extracting, forever; deleted rows are gone.
//!
//! Oracle: history monitor with row identities. Every row ever seen with the
//! subsumed flag is remembered as a ground term that evaluates to it; after every
//! later command that term must still evaluate to a row, and that row must still
//! be flagged (sticky through rebuild, congruent merges in either order,
//! re-insertion, push/pop). On a clone, probe rules copy every matchable row into
//! probe relations: no flagged row may appear there, every unflagged row must;
//! extraction results are walked node by node and must not use a flagged row;
//! `check` must still succeed on flagged rows. Subsume/delete events may change
//! nothing but their target row.
use crate::c15::{read_all, S};
use crate::dump::{self, Dump, V};
use crate::out::Report;
use crate::pgen::{self, Act, Cmd, GenCfg, Sig, T};
use crate::rng::Rng;
use crate::run::{self, Outcome};
use crate::Args;
use egglog::{CommandOutput, EGraph, Term, TermDag, TermId};
use serde_json::json;
use std::collections::{BTreeMap, BTreeSet};

fn take(eg: &EGraph) -> Dump {
    dump::register_unordered_from(eg);
    Dump::take(eg, false)
}

/// Evaluate a ground term (s-expression) over the dump: (class key, row was flagged subsumed).
pub fn eval_pub(d: &Dump, t: &S, globals: &BTreeMap<String, S>) -> Option<(V, bool)> {
    eval(d, t, globals)
}

pub fn uses_subsumed_pub(d: &Dump, t: &S, globals: &BTreeMap<String, S>) -> Option<String> {
    uses_subsumed(d, t, globals)
}

fn eval(d: &Dump, t: &S, globals: &BTreeMap<String, S>) -> Option<(V, bool)> {
    match t {
        S::A(a) => {
            if let Some(g) = globals.get(a) {
                return eval(d, g, globals);
            }
            Some((V::Base(a.clone()), false))
        }
        S::Str(_) => None,
        S::L(v) => {
            let S::A(head) = v.first()? else { return None };
            let table = d.tables.iter().find(|t| &t.name == head && t.is_constructor)?;
            let mut args = vec![];
            for x in &v[1..] {
                let (k, _) = eval(d, x, globals)?;
                args.push(k);
            }
            for r in &table.rows {
                let n = r.vals.len();
                let matches = r.vals[..n - 1].iter().zip(args.iter()).all(|(a, b)| same_val(a, b));
                if matches && n - 1 == args.len() {
                    return Some((canon_id(&r.vals[n - 1]), r.subsumed));
                }
            }
            None
        }
    }
}

fn canon_id(v: &V) -> V {
    match v {
        V::Id(s, _, c) => V::Id(s.clone(), *c, *c),
        o => o.clone(),
    }
}

fn same_val(a: &V, b: &V) -> bool {
    match (a, b) {
        (V::Id(s1, _, c1), V::Id(s2, _, c2)) => s1 == s2 && c1 == c2,
        (V::Base(x), V::Base(y)) => x == y,
        _ => false,
    }
}

fn term_to_s(dag: &TermDag, id: TermId) -> S {
    match dag.get(id) {
        Term::App(n, ch) => {
            let mut v = vec![S::A(n.clone())];
            for c in ch {
                v.push(term_to_s(dag, *c));
            }
            S::L(v)
        }
        Term::Lit(l) => S::A(l.to_string()),
        Term::Var(x) => S::A(x.clone()),
    }
}

/// Every constructor node of an extracted term must rest on an unflagged row.
fn uses_subsumed(d: &Dump, t: &S, globals: &BTreeMap<String, S>) -> Option<String> {
    if let S::L(v) = t {
        for x in &v[1..] {
            if let Some(e) = uses_subsumed(d, x, globals) {
                return Some(e);
            }
        }
        match eval(d, t, globals) {
            Some((_, true)) => return Some(t.text()),
            Some((_, false)) => {}
            None => return Some(format!("{} (no such row)", t.text())),
        }
    }
    None
}

fn probe_program(sig: &Sig) -> (String, Vec<(String, String)>) {
    let mut s = String::from("(ruleset verifprobe)\n");
    let mut names = vec![];
    for c in &sig.ctors {
        let mut sorts: Vec<String> = c.args.iter().map(|a| sig.ty_name(a)).collect();
        sorts.push(sig.sorts[c.out].clone());
        let p = format!("VerifProbe{}", c.name);
        s.push_str(&format!("(relation {p} ({}))\n", sorts.join(" ")));
        let vars: Vec<String> = (0..c.args.len()).map(|i| format!("a{i}")).collect();
        s.push_str(&format!("(rule ((= o ({} {}))) (({p} {} o)) :ruleset verifprobe)\n", c.name, vars.join(" "), vars.join(" ")));
        names.push((c.name.clone(), p));
    }
    s.push_str("(run verifprobe 1)\n");
    (s, names)
}

fn render(v: &V, names: &BTreeMap<(String, u32), String>) -> Option<String> {
    match v {
        V::Id(s, _, c) => names.get(&(s.clone(), *c)).filter(|n| !n.starts_with('?') && !n.contains('#')).cloned(),
        V::Base(b) => Some(b.clone()),
        V::Cont(..) => None,
    }
}

pub fn run(a: &Args) -> Report {
    let mut rep = Report::new(
        "C13",
        "generated histories with top-level subsume, rule-head subsume, :subsume rewrites, unions that merge flagged with unflagged congruent rows in both orders, re-insertions, push/pop (and, in delete mode, deletes). After every command: every row ever seen flagged still evaluates to a flagged row; probe rules on a clone match no flagged row and every unflagged row; extraction uses no flagged row; check still succeeds on flagged rows; subsume/delete events change only their target row. Non-trivial = history with at least one flagged row that later went through a rebuild or merge; distinct by final canonical dump.",
    );
    let n = a.cases(300, 12000);
    let root = Rng::new(a.seed);
    for case in 0..n {
        let mut rng = root.fork(case);
        let delete_mode = rng.chance(1, 4);
        let cfg = GenCfg {
            subsume: !delete_mode,
            delete: delete_mode,
            pushpop: !delete_mode && rng.chance(1, 4),
            funcs: rng.chance(1, 2),
            containers: false,
            i64_cols: rng.chance(1, 2),
            n_cmds: (10, 24),
            ..Default::default()
        };
        let (sig, cmds) = pgen::gen_history(&mut rng, &cfg);
        let (probe, probe_names) = probe_program(&sig);
        let mut eg = EGraph::new(a.threads);
        let mut tracked: BTreeSet<String> = BTreeSet::new();
        let mut tracked_stack: Vec<BTreeSet<String>> = vec![];
        let mut globals: BTreeMap<String, S> = BTreeMap::new();
        let mut globals_stack: Vec<BTreeMap<String, S>> = vec![];
        let mut log: Vec<String> = vec![];
        let mut flagged_then_rebuilt = false;
        let mut bad = false;
        rep.evaluations += 1;
        for c in &cmds {
            let text = c.to_string();
            if run::skip_run_on_large_db(&eg, &text) {
                rep.count("runs_skipped_large_db", 1);
                continue;
            }
            let before = take(&eg);
            let o = run::run(&mut eg, &text);
            log.push(text.clone());
            if let Outcome::Panic(p) = &o {
                rep.inconclusive(&format!("panic (C09's business): {p}"));
                bad = true;
                break;
            }
            match c {
                Cmd::Push => {
                    tracked_stack.push(tracked.clone());
                    globals_stack.push(globals.clone());
                }
                Cmd::Pop if o.is_ok() => {
                    tracked = tracked_stack.pop().unwrap_or_default();
                    globals = globals_stack.pop().unwrap_or_default();
                }
                Cmd::Act(Act::Let(name, t)) if o.is_ok() => {
                    if let Ok(v) = read_all(&t.to_string()) {
                        globals.insert(name.clone(), v[0].clone());
                    }
                }
                _ => {}
            }
            if eg.num_tuples() > 2500 {
                // term-building rules can blow the database up; the oracles are quadratic
                rep.count("histories_truncated_large_db", 1);
                break;
            }
            let d = take(&eg);
            let replay = || log.join("\n");
            // (a) event locality for top-level subsume / delete
            if o.is_ok() {
                if let Cmd::Act(Act::Subsume(t)) | Cmd::Act(Act::Delete(t)) = c {
                    let is_del = matches!(c, Cmd::Act(Act::Delete(_)));
                    let tname = match t {
                        T::App(n, _) => n.clone(),
                        _ => String::new(),
                    };
                    let rows = |d: &Dump| -> BTreeMap<String, Vec<String>> {
                        d.tables.iter().map(|t| (t.name.clone(), { let mut v: Vec<String> = t.rows.iter().map(|r| format!("{:?}|{}", r.vals, r.subsumed)).collect(); v.sort(); v })).collect()
                    };
                    let (rb, ra) = (rows(&before), rows(&d));
                    for (tab, vb) in &rb {
                        let va = ra.get(tab).cloned().unwrap_or_default();
                        let gone: Vec<&String> = vb.iter().filter(|x| !va.contains(x)).collect();
                        let new: Vec<&String> = va.iter().filter(|x| !vb.contains(x)).collect();
                        let allowed = if *tab == tname { 1 } else { 0 };
                        rep.count("event_locality_checks", 1);
                        // ground sub-terms of the target may be created by evaluating its arguments,
                        // so other tables may gain rows; nothing but the target row may disappear or
                        // change its flag, and a delete must not add rows to the target's own table
                        let flag_changed_elsewhere = *tab != tname && !gone.is_empty();
                        if gone.len() > allowed || flag_changed_elsewhere {
                            rep.violation(
                                &format!("C13:locality:{}", dump::fnv(&replay())),
                                &format!("`{text}` changed rows other than its target in table {tab}: removed {gone:?}, added {new:?}"),
                                &replay(),
                            );
                            bad = true;
                        }
                    }
                    if is_del {
                        if let Ok(v) = read_all(&t.to_string()) {
                            if eval(&d, &v[0], &globals).is_some() && sig.ctors.iter().any(|c| c.name == tname) {
                                rep.violation(&format!("C13:delete:{}", dump::fnv(&replay())), &format!("row of `{t}` is still present after (delete ..)"), &replay());
                                bad = true;
                            }
                        }
                        rep.count("delete_events", 1);
                    } else {
                        rep.count("subsume_events", 1);
                    }
                }
            }
            if bad {
                break;
            }
            if delete_mode {
                continue;
            }
            // (b) remember every flagged row as a ground term
            let names = d.class_names();
            for t in &d.tables {
                if !t.is_constructor {
                    continue;
                }
                for r in &t.rows {
                    if r.subsumed {
                        let n = r.vals.len();
                        let args: Option<Vec<String>> = r.vals[..n - 1].iter().map(|v| render(v, &names)).collect();
                        if let Some(args) = args {
                            let term = if args.is_empty() { format!("({})", t.name) } else { format!("({} {})", t.name, args.join(" ")) };
                            tracked.insert(term);
                        }
                    }
                }
            }
            // (c) sticky: every tracked term still evaluates to a flagged row
            for tt in &tracked {
                let s = &read_all(tt).unwrap()[0];
                rep.count("sticky_checks", 1);
                match eval(&d, s, &globals) {
                    Some((_, true)) => {}
                    Some((_, false)) => {
                        rep.violation(&format!("C13:flag-lost:{}", dump::fnv(&replay())), &format!("row of `{tt}` was subsumed earlier but is not flagged any more after `{text}`"), &replay());
                        bad = true;
                        break;
                    }
                    None => {
                        rep.violation(&format!("C13:row-lost:{}", dump::fnv(&replay())), &format!("subsumed row of `{tt}` disappeared after `{text}` (subsume must not remove rows)"), &replay());
                        bad = true;
                        break;
                    }
                }
            }
            if bad {
                break;
            }
            if !tracked.is_empty() && matches!(c, Cmd::Act(Act::Union(..)) | Cmd::Run(..) | Cmd::RunSchedule(..)) {
                flagged_then_rebuilt = true;
            }
            // (d) on a clone: probes, check, extract (every 3rd command and at the end, to bound cost)
            if tracked.is_empty() || (log.len() % 3 != 0 && log.len() != cmds.len()) {
                continue;
            }
            let mut cl = eg.clone();
            if !run::run(&mut cl, &probe).is_ok() {
                rep.inconclusive("probe program failed on the clone");
                continue;
            }
            let pd = take(&cl);
            for (cname, pname) in &probe_names {
                let Some(ct) = d.tables.iter().find(|t| &t.name == cname) else { continue };
                let Some(pt) = pd.tables.iter().find(|t| &t.name == pname) else { continue };
                let probed: BTreeSet<String> = pt.rows.iter().map(|r| format!("{:?}", r.vals[..r.vals.len() - 1].iter().map(canon_id).collect::<Vec<_>>())).collect();
                for r in &ct.rows {
                    let key = format!("{:?}", r.vals.iter().map(canon_id).collect::<Vec<_>>());
                    rep.count("probe_row_checks", 1);
                    if r.subsumed && probed.contains(&key) {
                        rep.violation(&format!("C13:matched:{}", dump::fnv(&replay())), &format!("a rule matched the subsumed row {key} of {cname}"), &replay());
                        bad = true;
                    }
                    if !r.subsumed && !probed.contains(&key) {
                        rep.violation(&format!("C13:unmatched:{}", dump::fnv(&replay())), &format!("a rule did not match the live (unsubsumed) row {key} of {cname}"), &replay());
                        bad = true;
                    }
                }
            }
            for tt in tracked.iter().take(6) {
                let mut c2 = eg.clone();
                rep.count("check_on_subsumed", 1);
                match run::check(&mut c2, tt) {
                    Ok(true) => {}
                    Ok(false) => {
                        rep.violation(&format!("C13:check:{}", dump::fnv(&replay())), &format!("(check {tt}) fails although the row is only subsumed, not deleted"), &replay());
                        bad = true;
                    }
                    Err(e) => rep.inconclusive(&format!("check on tracked term errored: {e}")),
                }
                match run::run_raw(&mut c2, &format!("(extract {tt})")) {
                    Ok(outs) => {
                        for o in outs {
                            if let CommandOutput::ExtractBest(dag, _, id) = o {
                                rep.count("extractions_walked", 1);
                                let s = term_to_s(&dag, id);
                                if let Some(w) = uses_subsumed(&d, &s, &globals) {
                                    rep.violation(&format!("C13:extract:{}", dump::fnv(&replay())), &format!("(extract {tt}) returned `{}` which uses the subsumed row `{w}`", s.text()), &replay());
                                    bad = true;
                                }
                            }
                        }
                    }
                    Err(_) => rep.count("extract_failed_only_subsumed_nodes", 1),
                }
            }
            if bad {
                break;
            }
        }
        if !bad && flagged_then_rebuilt {
            rep.count("histories_flag_survived_rebuild", 1);
            rep.nontrivial(&take(&eg).canonical());
        }
        if case < 2 {
            rep.sample(json!({"history": log, "tracked_subsumed_rows": tracked.iter().take(8).collect::<Vec<_>>()}));
        }
    }
    rep
}
