//! eggmon: language-level runtime monitors for egglog (one sub-command per property).
mod battery;
mod c01;
mod c02;
mod c03;
mod c04;
mod c05;
mod c07;
mod c08;
mod c09;
mod c10;
mod c11;
mod c12;
mod c13;
mod c14;
mod c15;
mod c18;
mod dump;
mod exec;
mod model;
mod pgen;
mod out;
mod rng;
mod run;

use std::collections::HashMap;

pub struct Args {
    pub seed: u64,
    pub tier: String,
    pub out: String,
    pub n: Option<u64>,
    pub threads: usize,
    pub extra: HashMap<String, String>,
    pub replay: Option<String>,
}

impl Args {
    pub fn quick(&self) -> bool {
        self.tier != "thorough"
    }
    /// number of cases: explicit --n, else by tier
    pub fn cases(&self, quick: u64, thorough: u64) -> u64 {
        self.n.unwrap_or(if self.quick() { quick } else { thorough })
    }
    pub fn get(&self, k: &str) -> Option<&str> {
        self.extra.get(k).map(|s| s.as_str())
    }
}

fn main() {
    let argv: Vec<String> = std::env::args().collect();
    if argv.len() < 2 {
        eprintln!("usage: eggmon <monitor> [--seed N] [--tier quick|thorough] [--out FILE] [--n N] [--threads N] [--replay FILE] [--key value]...");
        std::process::exit(2);
    }
    let mut a = Args { seed: 1, tier: "quick".into(), out: String::new(), n: None, threads: 1, extra: HashMap::new(), replay: None };
    let mut i = 2;
    while i < argv.len() {
        let k = argv[i].trim_start_matches("--").to_string();
        let v = argv.get(i + 1).cloned().unwrap_or_default();
        match k.as_str() {
            "seed" => a.seed = v.parse().unwrap(),
            "tier" => a.tier = v,
            "out" => a.out = v,
            "n" => a.n = Some(v.parse().unwrap()),
            "threads" => a.threads = v.parse().unwrap(),
            "replay" => a.replay = Some(v),
            _ => {
                a.extra.insert(k, v);
            }
        }
        i += 2;
    }
    run::quiet_panics();
    let report = match argv[1].as_str() {
        "c01" => c01::run(&a),
        "c02" => c02::run(&a),
        "c03" => c03::run(&a),
        "c04" => c04::run(&a),
        "c05" => c05::run(&a),
        "c07" => c07::run(&a),
        "c08" => c08::run(&a),
        "c09" => c09::run(&a),
        "c10" => c10::run(&a),
        "c11" => c11::run(&a),
        "c12" => c12::run(&a),
        "c13" => c13::run(&a),
        "c14" => c14::run(&a),
        "c15" => c15::run(&a),
        "c18" => c18::run(&a),
        "exec" => exec::run(&a),
        "battery" => battery::run(&a),
        other => {
            eprintln!("unknown monitor {other}");
            std::process::exit(2);
        }
    };
    let mut report = report;
    for (name, v) in egglog_core_relations::verif::snapshot() {
        if v > 0 {
            report.count(&format!("path:{name}"), v);
        }
    }
    if a.out.is_empty() {
        println!("{}", serde_json::to_string_pretty(&report.to_json()).unwrap());
    } else {
        report.write(&a.out);
    }
}
