//! C09 — bad input is rejected cleanly: no panic, no partial effect.
//!
//! Oracle: differential session. S1; bad; S2 versus S1; S2, every command a
//! separate `parse_and_run_program` call on one long-lived e-graph (what a REPL or
//! a recovering library caller does). A command rejected before execution (class
//! read off the error variant) must leave outputs, canonical dump and declared
//! names identical; a command failing during execution must leave a consistent,
//! usable e-graph. Plus a text/byte fuzzer: nothing may panic.
use crate::c03::{canon, first_diff};
use crate::c04;
use crate::dump;
use crate::out::Report;
use crate::pgen::{self, Cmd, Gen, GenCfg, Sig, Ty};
use crate::rng::Rng;
use crate::run::{self, Outcome};
use crate::Args;
use egglog::{EGraph, Error};
use serde_json::json;
use std::panic::{catch_unwind, AssertUnwindSafe};

#[derive(Clone, Copy, Debug, PartialEq, Eq)]
pub enum Class {
    Ok,
    /// rejected before execution: must have no observable effect
    Pre,
    /// failed during execution: e-graph must stay consistent and usable
    Exec,
    Panic,
}

pub fn run_classified(eg: &mut EGraph, text: &str) -> (Class, String) {
    let r = catch_unwind(AssertUnwindSafe(|| eg.parse_and_run_program(None, text)));
    match r {
        Ok(Ok(outs)) => (Class::Ok, outs.iter().map(|o| o.to_string()).collect::<Vec<_>>().join("")),
        Ok(Err(e)) => {
            let c = match &e {
                Error::ParseError(_)
                | Error::TypeError(_)
                | Error::TypeErrors(_)
                | Error::NoSuchRuleset(..)
                | Error::CombinedRulesetError(..)
                | Error::Shadowing(..)
                | Error::RuleAlreadyExists(..)
                | Error::DesugarError(..)
                | Error::UnsupportedProofCommand { .. }
                | Error::SubsumeMergeError(..)
                | Error::Pop(..) => Class::Pre,
                _ => Class::Exec,
            };
            (c, e.to_string())
        }
        Err(p) => (Class::Panic, format!("{} @ {}", run::panic_message(p), run::last_panic_location())),
    }
}

fn names(eg: &EGraph) -> Vec<String> {
    let mut v: Vec<String> = eg.functions_iter().map(|(n, f)| format!("{n}:{}", f.func_type().input.len())).collect();
    v.sort();
    v
}

fn wrong_ty(sig: &Sig, t: &Ty, g: &Gen, rng: &mut Rng) -> String {
    match t {
        Ty::I64 => {
            if rng.chance(1, 2) {
                "\"str\"".into()
            } else {
                g.ground(rng, &Ty::Eq(0), 0).to_string()
            }
        }
        Ty::Eq(s) => {
            if sig.sorts.len() > 1 && rng.chance(1, 2) {
                g.ground(rng, &Ty::Eq((s + 1) % sig.sorts.len()), 0).to_string()
            } else {
                "7".into()
            }
        }
        Ty::Cont(_) => "3".into(),
    }
}

/// One invalid command (text, kind label) for the given session state.
fn bad_command(rng: &mut Rng, sig: &Sig, g: &mut Gen) -> (String, &'static str) {
    let c = rng.pick(&sig.ctors).clone();
    let nonnull: Vec<&pgen::Ctor> = sig.ctors.iter().filter(|c| !c.args.is_empty()).collect();
    let rs = sig.rulesets[0].clone();
    match rng.below(32) {
        0 => {
            // arity: one argument too many
            let mut args: Vec<String> = c.args.iter().map(|a| g.ground(rng, a, 0).to_string()).collect();
            args.push("1".into());
            (format!("({} {})", c.name, args.join(" ")), "arity-extra")
        }
        1 if !nonnull.is_empty() => {
            let c = *rng.pick(&nonnull);
            let args: Vec<String> = c.args.iter().skip(1).map(|a| g.ground(rng, a, 0).to_string()).collect();
            (format!("({} {})", c.name, args.join(" ")), "arity-missing")
        }
        2 if !nonnull.is_empty() => {
            let c = *rng.pick(&nonnull);
            let k = rng.below(c.args.len());
            let args: Vec<String> =
                c.args.iter().enumerate().map(|(i, a)| if i == k { wrong_ty(sig, a, g, rng) } else { g.ground(rng, a, 0).to_string() }).collect();
            (format!("({} {})", c.name, args.join(" ")), "wrong-sort")
        }
        3 => {
            let r = rng.pick(&sig.rels);
            let args: Vec<String> = r.args.iter().map(|a| match a { Ty::I64 => "i".to_string(), _ => "x".to_string() }).collect();
            (format!("(rule (({} {})) (({} {} unboundvar)))", r.name, args.join(" "), sig.ctors[0].name, ""), "unbound-var-in-head")
        }
        4 => (format!("(rule ((= x (+ y 1))) (({})) :ruleset {rs})", g.ground(rng, &Ty::Eq(0), 0)), "ungrounded-var"),
        5 => (format!("(set ({}) {})", c.name, g.ground(rng, &Ty::Eq(c.out), 0)), "set-on-constructor"),
        6 => ("(union 1 2)".into(), "union-non-eq-sort"),
        7 => (format!("(constructor {} () {})", c.name, sig.sorts[c.out]), "duplicate-constructor"),
        8 => (format!("(sort {})", sig.sorts[0]), "duplicate-sort"),
        9 => (format!("(relation {} (i64))", sig.rels[0].name), "duplicate-relation"),
        10 => (format!("(function {} (i64) i64 :merge (nosuchprim old new))", fresh(rng, "bm")), "bad-merge-unknown"),
        11 => (format!("(function {} (i64) i64 :merge (+ old \"a\"))", fresh(rng, "bm")), "bad-merge-type"),
        12 => (format!("(function {} (i64) NoSuchSort :no-merge)", fresh(rng, "bo")), "unknown-output-sort"),
        13 => (format!("(sort {} (Vec NoSuchSort))", fresh(rng, "BS")), "presort-unknown-arg"),
        14 => (format!("(sort {} (NoSuchPresort i64))", fresh(rng, "BS")), "unknown-presort"),
        15 => ("(run nosuchruleset 1)".into(), "unknown-ruleset-run"),
        16 => (format!("(rule (({})) (({})) :ruleset nosuchruleset)", g.ground(rng, &Ty::Eq(0), 0), g.ground(rng, &Ty::Eq(0), 0)), "unknown-ruleset-rule"),
        17 => ("(pop)".into(), "pop-empty"),
        18 => (format!("(extract {} -1)", g.ground(rng, &Ty::Eq(0), 1)), "extract-negative-variants"),
        19 => ("(extract (NoSuchFn 1))".into(), "unknown-function"),
        20 => (format!("(let $dup{} 1)\n(let $dup{} 2)", 0, 0), "duplicate-global"),
        21 if !sig.funcs.is_empty() => {
            let f = rng.pick(&sig.funcs);
            let args: Vec<String> = f.args.iter().map(|a| g.ground(rng, a, 0).to_string()).collect();
            (format!("(set ({} {}) \"notanint\")", f.name, args.join(" ")), "set-wrong-value-sort")
        }
        22 => (format!("(datatype {} (Okv{}) (Badv{} NoSuchSort))", fresh(rng, "PD"), rng.below(1000), rng.below(1000)), "datatype-bad-variant"),
        23 => (format!("(check (= {} 3))", g.ground(rng, &Ty::Eq(0), 0)), "check-ill-typed"),
        24 => {
            let texts = ["(", ")", "(let", "(rule ((R x)) ((S x)) :bogus-option)", "(function f (i64) i64)", "(run)", "(sort)", "(extract)", "(set (f 1))", "(unknown-command 1 2)", "(check (= 1))", "\"unterminated", "(let x \"bad \\q escape\")", "(constructor C (i64) S :cost -5)", "(rule () () :ruleset)"];
            (texts[rng.below(texts.len())].to_string(), "parse-error")
        }
        25 => (format!("(unstable-combined-ruleset {} nosuchsub)", fresh(rng, "cr")), "combined-unknown-sub"),
        26 => (format!("(rule ((= pv{} {})) ((panic \"boom\")) :ruleset {rs})\n(run {rs} 1)", rng.below(1000), g.ground(rng, &Ty::Eq(0), 0)), "runtime-panic-rule"),
        27 => ("(panic \"top-level\")".into(), "runtime-panic-toplevel"),
        28 => (format!("(function {0} (i64) i64 :no-merge)\n(set ({0} 1) 1)\n(set ({0} 1) 2)", fresh(rng, "nm")), "runtime-nomerge-conflict"),
        29 | 30 => {
            // a second rule under an existing name (different body and head): the set-up line declares
            // the first one on both sessions, the rejected one must not replace it
            let name = fresh(rng, "duprule");
            let ri = rng.below(sig.rulesets.len());
            let mk = |g: &mut Gen, rng: &mut Rng| -> String {
                match g.rule(rng, ri) {
                    Cmd::Rule { body, head, mut opts } => {
                        opts.name = Some(name.clone());
                        Cmd::Rule { body, head, opts }.to_string()
                    }
                    other => other.to_string(),
                }
            };
            let first = mk(g, rng);
            let second = mk(g, rng);
            (format!("{first}\n{second}"), "duplicate-rule-name")
        }
        _ => {
            // shadowing: a rule variable named like an existing global, or rebinding
            let gname = format!("${}shadow{}", sig.sorts[0], rng.below(1000));
            (format!("(let {gname} {0})\n(rule ((= {gname} {0})) (({0})))", g.ground(rng, &Ty::Eq(0), 0)), "shadowing")
        }
    }
}

fn fresh(rng: &mut Rng, p: &str) -> String {
    format!("{p}{}", rng.below(100000))
}

fn mode_egraph(mode: &str, threads: usize) -> EGraph {
    crate::exec::new_egraph(mode, threads)
}

pub fn run(a: &Args) -> Report {
    let mode = a.get("mode").unwrap_or("plain").to_string();
    let mut rep = Report::new(
        "C09",
        "valid generated sessions with one invalid command (30 kinds of typed mutations and malformed text) inserted at a random position; S1;bad;S2 vs S1;S2 on long-lived e-graphs, one parse_and_run_program call per command. Pre-execution rejections must leave outputs, canonical dump and declared names unchanged; run-time failures must leave C04's invariants intact and the session usable; nothing may panic. Plus a text fuzzer (random printable/unicode strings, token soup, truncations, deep nesting). Non-trivial/distinct = distinct (kind of bad command, error class, first line of error).",
    );
    let n = a.cases(1500, 60000);
    let root = Rng::new(a.seed);
    // known-finding witnesses: each file is `bad` line first, then a continuation; the
    // session without the first line is the reference
    if let Some(dir) = a.get("witness-dir") {
        if let Ok(rd) = std::fs::read_dir(dir) {
            let mut files: Vec<_> = rd.filter_map(|e| e.ok()).map(|e| e.path()).filter(|p| p.extension().map(|x| x == "egg").unwrap_or(false)).collect();
            files.sort();
            for f in files {
                let text = std::fs::read_to_string(&f).unwrap();
                let cmds = crate::exec::split_toplevel(&text);
                let mut ea = mode_egraph(&mode, a.threads);
                let mut eb = mode_egraph(&mode, a.threads);
                let (c0, _) = run_classified(&mut ea, &cmds[0]);
                rep.count("witness_programs", 1);
                let mut diverged = c0 != Class::Pre;
                for c in &cmds[1..] {
                    let (ca, oa) = run_classified(&mut ea, c);
                    let (cb, ob) = run_classified(&mut eb, c);
                    if ca != cb || (ca == Class::Ok && oa != ob) {
                        diverged = true;
                    }
                }
                if diverged {
                    let stem = f.file_stem().unwrap().to_string_lossy().to_string();
                    rep.violation(&format!("C09:witness:{stem}"), "known witness still diverges", &text);
                }
            }
        }
    }
    for case in 0..n {
        let mut rng = root.fork(case);
        let cfg = GenCfg {
            containers: rng.chance(1, 4),
            subsume: rng.chance(1, 3),
            delete: mode == "plain" && rng.chance(1, 4),
            extracts: true,
            prints: true,
            n_cmds: (6, 16),
            one_container_per_kind: mode != "plain",
            subsume_existing_only: mode != "plain",
            ..Default::default()
        };
        let sig = pgen::gen_sig(&mut rng, &cfg);
        let mut g = Gen::new(&sig, &cfg);
        let mut s1: Vec<String> = sig.decls(&mut rng, true).iter().map(|c| c.to_string()).collect();
        s1.extend(g.seed(&mut rng).iter().map(|c| c.to_string()));
        for _ in 0..rng.below(8) {
            s1.push(g.command(&mut rng).to_string());
        }
        let (bad, kind) = bad_command(&mut rng, &sig, &mut g);
        let mut s2: Vec<String> = vec![];
        // first continuation command: a corrected declaration re-using the rejected names
        {
            let toks: Vec<&str> = bad.split(|c: char| c.is_whitespace() || c == '(' || c == ')').filter(|t| !t.is_empty()).collect();
            let follow = match kind {
                // re-declaring after a rejected multi-part declaration is known finding
                // F-C09-datatype-partial-effect (replayed from witnesses/C09), so no follow-up here
                "datatype-bad-variant" => None,
                "bad-merge-unknown" | "bad-merge-type" => Some(format!("(function {} (i64) i64 :merge (min old new))", toks[1])),
                "unknown-output-sort" => Some(format!("(function {} (i64) i64 :no-merge)", toks[1])),
                "presort-unknown-arg" | "unknown-presort" => Some(format!("(sort {} (Vec i64))", toks[1])),
                "combined-unknown-sub" => Some(format!("(ruleset {})", toks[1])),
                // the continuation runs every ruleset, so a replaced rule would show
                "duplicate-rule-name" => Some(sig.rulesets.iter().map(|r| format!("(run {r} 2)")).collect::<Vec<_>>().join("\n")),
                _ => None,
            };
            if let Some(f) = follow {
                s2.extend(f.lines().map(|l| l.to_string()));
            }
        }
        for _ in 0..(4 + rng.below(8)) {
            let c = g.command(&mut rng);
            if matches!(c, Cmd::Push | Cmd::Pop) {
                continue;
            }
            s2.push(c.to_string());
        }
        s2.push("(print-size)".into());
        let mut ea = mode_egraph(&mode, a.threads);
        let mut eb = mode_egraph(&mode, a.threads);
        let mut replay = s1.clone();
        let mut ok = true;
        for c in &s1 {
            let (ca, _) = run_classified(&mut ea, c);
            let (cb, _) = run_classified(&mut eb, c);
            if ca == Class::Panic || cb == Class::Panic || ca != cb {
                ok = false;
                break;
            }
        }
        rep.evaluations += 1;
        if !ok {
            rep.inconclusive("valid prefix panicked or was not reproducible (reported by the valid-session properties)");
            continue;
        }
        // a bad command may come with valid set-up lines: those run on BOTH sessions
        let mut lines = crate::exec::split_toplevel(&bad);
        if lines.is_empty() {
            lines = vec![bad.clone()];
        }
        let bad_line = lines.pop().unwrap();
        let mut setup_ok = true;
        for l in &lines {
            let (ca, _) = run_classified(&mut ea, l);
            let (cb, _) = run_classified(&mut eb, l);
            replay.push(l.clone());
            if ca != Class::Ok || cb != Class::Ok {
                setup_ok = false;
            }
        }
        if !setup_ok {
            // e.g. :no-merge functions and primitive-valued globals are outside the encoder's fragment
            rep.count("cases_skipped_setup_unsupported_in_mode", 1);
            continue;
        }
        let before_names = names(&ea);
        let before_dump = canon(&ea);
        let mut classes = vec![];
        let mut violated = false;
        {
            let line = if bad.contains('(') || !lines.is_empty() { bad_line.clone() } else { bad.clone() };
            let (cl, msg) = run_classified(&mut ea, &line);
            replay.push(line.clone());
            rep.count(&format!("class_{cl:?}"), 1);
            if cl == Class::Ok {
                rep.count(&format!("accepted_kind_{kind}"), 1);
            }
            classes.push(cl);
            let first = msg.lines().last().unwrap_or("").chars().take(60).collect::<String>();
            rep.nontrivial(&format!("{kind}|{cl:?}|{first}"));
            match cl {
                Class::Panic => {
                    rep.violation(&format!("C09:panic:{kind}:{}", msg.split('@').next_back().unwrap_or("").trim()), &format!("[{mode}] command `{line}` ({kind}) panicked: {msg}"), &replay.join("\n"));
                    violated = true;
                }
                Class::Pre => {
                    let (n2, d2) = (names(&ea), canon(&ea));
                    if n2 != before_names || d2 != before_dump {
                        let leaked: Vec<&String> = n2.iter().filter(|x| !before_names.contains(x)).collect();
                        rep.violation(
                            &format!("C09:partial:{kind}"),
                            &format!("[{mode}] `{line}` ({kind}) was rejected before execution ({}) but left an effect: new tables {leaked:?}; {}", msg.lines().last().unwrap_or(""), first_diff(&d2, &before_dump)),
                            &replay.join("\n"),
                        );
                        violated = true;
                    }
                }
                Class::Exec | Class::Ok => {}
            }
        }
        if violated {
            continue;
        }
        rep.count(&format!("kind_{kind}"), 1);
        let inv = c04::invariants(&ea);
        if !inv.is_empty() {
            rep.violation(&format!("C09:inconsistent:{kind}"), &format!("[{mode}] after failing `{bad}` ({kind}) the e-graph is inconsistent: {}", inv.join("; ")), &replay.join("\n"));
            continue;
        }
        let all_pre = classes.iter().all(|c| *c == Class::Pre);
        // continuation
        for c in &s2 {
            let (ca, oa) = run_classified(&mut ea, c);
            replay.push(c.clone());
            if ca == Class::Panic {
                rep.violation(&format!("C09:panic-later:{kind}:{}", oa.split('@').next_back().unwrap_or("").trim()), &format!("[{mode}] after `{bad}` ({kind}), the valid command `{c}` panicked: {oa}"), &replay.join("\n"));
                violated = true;
                break;
            }
            if all_pre {
                let (cb, ob) = run_classified(&mut eb, c);
                rep.count("continuation_commands_compared", 1);
                let (da, db) = (canon(&ea), canon(&eb));
                let norm = |s: &str| run::Outcome::Ok(vec![s.to_string()]).norm();
                if ca != cb || (ca == Class::Ok && norm(&oa) != norm(&ob)) || da != db {
                    rep.violation(
                        &format!("C09:continuation:{kind}"),
                        &format!("[{mode}] after the rejected `{bad}` ({kind}) the session diverges at `{c}`: {ca:?} `{}` vs {cb:?} `{}`; {}", oa.lines().last().unwrap_or(""), ob.lines().last().unwrap_or(""), first_diff(&da, &db)),
                        &replay.join("\n"),
                    );
                    violated = true;
                    break;
                }
            } else {
                let inv = c04::invariants(&ea);
                if !inv.is_empty() {
                    rep.violation(&format!("C09:inconsistent-later:{kind}"), &format!("[{mode}] inconsistent e-graph after `{c}` following a run-time failure: {}", inv.join("; ")), &replay.join("\n"));
                    violated = true;
                    break;
                }
            }
        }
        if !violated && case < 3 {
            rep.sample(json!({"S1": s1, "bad": bad, "kind": kind, "classes": format!("{classes:?}"), "S2": s2}));
        }
    }

    // ---- text fuzzer: nothing may panic --------------------------------------------------
    let fz = a.get("fuzz").and_then(|s| s.parse().ok()).unwrap_or(if a.quick() { 15000u64 } else { 600000 });
    let toks = ["(", ")", "(", ")", "rule", "rewrite", "let", "set", "union", "function", "constructor", "sort", "datatype", "run", "run-schedule", "saturate", "repeat", "seq", "check", "extract", "fail", "push", "pop", ":merge", ":cost", ":ruleset", ":when", ":until", ":no-merge", ":subsume", "i64", "String", "Vec", "Map", "old", "new", "x", "y", "f", "S", "=", "+", "!=", "0", "-1", "9223372036854775808", "1e999", "\"s\"", "\"", ";c\n", "$g", "@r", "()", "NaN", "vec-of", "λ", "\u{0}", "\t"];
    let mut eg = mode_egraph(&mode, a.threads);
    let _ = run::run(&mut eg, "(datatype S (A) (F S))\n(function f (i64) i64 :merge (min old new))\n(relation R (S))\n(ruleset r)");
    for case in 0..fz {
        let mut rng = root.fork(5_000_000 + case);
        let text: String = match rng.below(5) {
            0 => (0..rng.below(40)).map(|_| char::from_u32(rng.below(0x250) as u32).unwrap_or('?')).collect(),
            1 | 2 => (0..rng.below(25)).map(|_| toks[rng.below(toks.len())]).collect::<Vec<_>>().join(" "),
            3 => {
                // truncate / corrupt a valid command
                let valid = ["(rule ((= x (F y)) (R y)) ((union x y) (R x)) :ruleset r)", "(set (f 1) (+ 2 3))", "(run-schedule (saturate (seq (run r) (run r))))", "(check (= (F (A)) (A)))", "(extract (F (F (A))) 3)"];
                let v = valid[rng.below(valid.len())];
                let cs: Vec<char> = v.chars().collect();
                let cut = rng.below(cs.len());
                let mut s: String = cs[..cut].iter().collect();
                if rng.chance(1, 2) {
                    s.push_str(toks[rng.below(toks.len())]);
                    s.extend(cs[cut..].iter());
                }
                s
            }
            _ => {
                let d = 1 + rng.below(400);
                format!("{}A{}", "(F ".repeat(d), ")".repeat(if rng.chance(1, 2) { d } else { rng.below(d + 1) }))
            }
        };
        let (cl, msg) = run_classified(&mut eg, &text);
        rep.count("fuzz_inputs", 1);
        if cl == Class::Panic {
            rep.violation(&format!("C09:fuzz-panic:{}", msg.split('@').next_back().unwrap_or("").trim()), &format!("[{mode}] fuzz input made the engine panic: {msg}"), &text);
        }
        if case % 64 == 0 {
            rep.nontrivial(&format!("fuzz|{cl:?}|{}", msg.lines().last().unwrap_or("").chars().take(40).collect::<String>()));
        }
    }
    let _ = Outcome::Ok(vec![]);
    let _ = dump::fnv("");
    rep
}
