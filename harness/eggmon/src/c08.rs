//! C08 — push/pop and clone give perfect snapshot isolation.
//!
//! Oracle: differential, engine vs itself. A: P;push;Q;pop;R  B: P;R — every
//! command of R must give the same outcome/outputs and the same canonical dump.
//! Clone: P; clone; X on original, Y on clone — each compared with a fresh
//! e-graph that ran P;X resp. P;Y and never had a sibling.
use crate::c03::{canon, first_diff};
use crate::dump;
use crate::out::Report;
use crate::pgen::{self, Cmd, Gen, GenCfg};
use crate::rng::Rng;
use crate::run::{self, Outcome};
use crate::Args;
use egglog::EGraph;
use serde_json::json;

fn cmds_over(rng: &mut Rng, sig: &pgen::Sig, cfg: &GenCfg, n: usize, g: &mut Gen) -> Vec<Cmd> {
    let _ = (sig, cfg);
    (0..n).map(|_| g.command(rng)).collect()
}

fn run_all(eg: &mut EGraph, cmds: &[String]) -> Vec<Outcome> {
    let t = eg.num_threads();
    cmds.iter().map(|c| run::run_for_compare(eg, c, t).norm()).collect()
}

pub fn run(a: &Args) -> Report {
    let mut rep = Report::new(
        "C08",
        "generated triples (P,Q,R): Q declares fresh sorts/constructors/functions/rulesets/rules, runs, unions, fails; R re-declares Q's names, probes with print-size/print-function/extract/check/run. Outputs and canonical dumps of P;push;Q;pop;R vs P;R compared after every command of R; plus clone divergence. Non-trivial = Q changed the database (dump after Q differs from dump after P); distinct by final dump.",
    );
    let n = a.cases(400, 20000);
    let root = Rng::new(a.seed);
    for case in 0..n {
        let mut rng = root.fork(case);
        let cfg1 = GenCfg {
            containers: rng.chance(1, 4),
            subsume: rng.chance(1, 3),
            delete: rng.chance(1, 4),
            extracts: true,
            prints: true,
            n_cmds: (5, 14),
            ..Default::default()
        };
        let cfg2 = GenCfg { prefix: "q".into(), containers: rng.chance(1, 4), n_cmds: (4, 10), prints: true, extracts: true, ..Default::default() };
        let sig1 = pgen::gen_sig(&mut rng, &cfg1);
        let sig2 = pgen::gen_sig(&mut rng, &cfg2);
        let mut g1 = Gen::new(&sig1, &cfg1);
        let mut p: Vec<String> = sig1.decls(&mut rng, true).iter().map(|c| c.to_string()).collect();
        p.extend(g1.seed(&mut rng).iter().map(|c| c.to_string()));
        let np = 4 + rng.below(10);
        p.extend(cmds_over(&mut rng, &sig1, &cfg1, np, &mut g1).iter().map(|c| c.to_string()));
        // Q: declarations of sig2 + commands on both signatures (+ nested push/pop, failing commands)
        let decl2: Vec<String> = sig2.decls(&mut rng, false).iter().map(|c| c.to_string()).collect();
        let globals_before_q = g1.globals.len();
        let nrules_before = (g1.ruleset_safe.clone(), g1.ruleset_nonempty.clone());
        let mut q: Vec<String> = decl2.clone();
        {
            let mut g2 = Gen::new(&sig2, &cfg2);
            let nq = 3 + rng.below(10);
            let mut depth = 0;
            for _ in 0..nq {
                match rng.below(12) {
                    0 => {
                        q.push("(push)".into());
                        depth += 1;
                    }
                    1 if depth > 0 => {
                        q.push("(pop)".into());
                        depth -= 1;
                    }
                    2 => q.push("(set (nosuchfn 1) 2)".into()),
                    3 => q.push("(panic \"in Q\")".into()),
                    x if x < 8 => q.push(g1.command(&mut rng).to_string()),
                    _ => q.push(g2.command(&mut rng).to_string()),
                }
            }
            for _ in 0..depth {
                q.push("(pop)".into());
            }
        }
        // globals and rule-safety knowledge created inside Q are gone after pop
        g1.globals.truncate(globals_before_q);
        g1.ruleset_safe = nrules_before.0;
        g1.ruleset_nonempty = nrules_before.1;
        // R: re-declare Q's names, then probe
        let mut r: Vec<String> = vec![];
        if rng.chance(3, 4) {
            r.extend(decl2.clone());
            let mut g2 = Gen::new(&sig2, &cfg2);
            for _ in 0..(2 + rng.below(4)) {
                r.push(g2.command(&mut rng).to_string());
            }
        }
        for _ in 0..(5 + rng.below(8)) {
            r.push(g1.command(&mut rng).to_string());
        }
        r.push("(print-size)".into());
        for rs in &sig1.rulesets {
            r.push(format!("(run {rs} 2)"));
        }
        r.push("(print-size)".into());

        let mut ea = EGraph::new(a.threads);
        let mut eb = EGraph::new(a.threads);
        let pa = run_all(&mut ea, &p);
        let pb = run_all(&mut eb, &p);
        if pa.iter().zip(pb.iter()).any(|(x, y)| x != y) || pa.iter().any(|o| matches!(o, Outcome::Panic(_))) {
            rep.inconclusive("prefix P not reproducible or panicked (C20/C09 business)");
            rep.evaluations += 1;
            continue;
        }
        let after_p = canon(&ea);
        let _ = run::run(&mut ea, "(push)");
        let qa = run_all(&mut ea, &q);
        let after_q = canon(&ea);
        if qa.iter().any(|o| matches!(o, Outcome::Panic(_))) {
            rep.count("cases_with_panic_in_q", 1);
        }
        let popped = run::run(&mut ea, "(pop)");
        let mut replay: Vec<String> = p.clone();
        replay.push("(push)".into());
        replay.extend(q.clone());
        replay.push("(pop)".into());
        let mut violated = false;
        if !popped.is_ok() {
            rep.violation(&format!("C08:pop:{}", dump::fnv(&replay.join("\n"))), &format!("(pop) after Q failed: {}", popped.short()), &replay.join("\n"));
            violated = true;
        }
        if !violated {
            let d = canon(&ea);
            if d != after_p {
                rep.violation(
                    &format!("C08:{}", dump::fnv(&replay.join("\n"))),
                    &format!("dump right after pop differs from dump before push: {}", first_diff(&d, &after_p)),
                    &replay.join("\n"),
                );
                violated = true;
            }
        }
        if !violated {
            for c in &r {
                let oa = run::run_for_compare(&mut ea, c, a.threads);
                let ob = run::run_for_compare(&mut eb, c, a.threads);
                replay.push(c.clone());
                rep.count("r_commands_compared", 1);
                let da = canon(&ea);
                let db = canon(&eb);
                if oa.norm() != ob.norm() || da != db {
                    rep.violation(
                        &format!("C08:{}", dump::fnv(&replay.join("\n"))),
                        &format!(
                            "after push;Q;pop the continuation command `{c}` behaves differently than without the bracket: {} vs {}; {}",
                            oa.short(),
                            ob.short(),
                            first_diff(&da, &db)
                        ),
                        &replay.join("\n"),
                    );
                    violated = true;
                    break;
                }
            }
        }
        // clone isolation
        if !violated {
            let mut orig = EGraph::new(a.threads);
            run_all(&mut orig, &p);
            let mut cl = orig.clone();
            let x: Vec<String> = (0..(3 + rng.below(6))).map(|_| g1.command(&mut rng).to_string()).collect();
            let y: Vec<String> = (0..(3 + rng.below(6))).map(|_| g1.command(&mut rng).to_string()).collect();
            // interleave X on the original and Y on the clone
            let mut ox = vec![];
            let mut oy = vec![];
            for i in 0..x.len().max(y.len()) {
                if i < x.len() {
                    ox.push(run::run_for_compare(&mut orig, &x[i], a.threads).norm());
                }
                if i < y.len() {
                    oy.push(run::run_for_compare(&mut cl, &y[i], a.threads).norm());
                }
            }
            let mut fx = EGraph::new(a.threads);
            run_all(&mut fx, &p);
            let rx = run_all(&mut fx, &x);
            let mut fy = EGraph::new(a.threads);
            run_all(&mut fy, &p);
            let ry = run_all(&mut fy, &y);
            rep.count("clone_pairs", 1);
            let txt = format!("; P\n{}\n; X (on original)\n{}\n; Y (on clone)\n{}", p.join("\n"), x.join("\n"), y.join("\n"));
            if ox != rx || canon(&orig) != canon(&fx) {
                rep.violation(&format!("C08:clone:{}", dump::fnv(&txt)), "original observed its clone's changes (or vice versa): original+X differs from fresh P;X", &txt);
            } else if oy != ry || canon(&cl) != canon(&fy) {
                rep.violation(&format!("C08:clone:{}", dump::fnv(&txt)), "clone observed the original's changes: clone+Y differs from fresh P;Y", &txt);
            }
        }
        rep.evaluations += 1;
        if after_q != after_p {
            rep.count("cases_where_q_changed_db", 1);
            rep.nontrivial(&format!("{after_q}{}", canon(&ea)));
        }
        if case < 2 {
            rep.sample(json!({"P": p, "Q": q, "R": r}));
        }
    }
    rep
}
