//! C14 — containers of e-classes stay canonical and keep rules firing.
//!
//! Three oracles on generated container histories (Vec, Set, MultiSet, Map with eq values,
//! Map with eq keys that never collide, Pair, and nested Vec<Vec>, Set<Pair>, Map<i64,Vec>,
//! Vec<Set>), with unions among the leaves they contain:
//!  1. harness-side model: only leaves `(N i)` are ever unioned, so two container terms are
//!     equal iff their normal forms under the leaf partition coincide (sets deduplicate,
//!     multisets sort, maps key-sort). After every command the row counts of every table
//!     keyed by / holding containers must equal the number of distinct normal forms, and
//!     sampled `(check (= t1 t2))` must agree with normal-form equality;
//!  2. rule firing: join rules `(BoxK v) (HasK v)` and primitive rules (length, contains,
//!     vec-get, map-get, pair-first) become matchable only through container rebuild — their
//!     output relations must equal the model's expectation after each single iteration, on
//!     a semi-naive AND on a naive e-graph, whose canonical dumps must also be equal;
//!  3. C04's canonicity invariants after every command (no stale id inside a container, no
//!     two container ids with equal contents, congruent rows merged).
//! Threshold cases hold > 1000 containers with a few unions (incremental container rebuild).
use crate::dump;
use crate::out::Report;
use crate::rng::Rng;
use crate::run::{self, Outcome};
use crate::Args;
use egglog::EGraph;
use serde_json::json;
use std::collections::{BTreeMap, BTreeSet};

#[derive(Clone, Debug, PartialEq, Eq, Hash, PartialOrd, Ord)]
enum X {
    Leaf(usize),
    Int(i64),
    Box(usize, Box<X>),
    Vec(Vec<X>),
    Set(Vec<X>),
    MSet(Vec<X>),
    /// i64 keys
    MapV(Vec<(i64, X)>),
    /// eq-sort keys, i64 values
    MapK(Vec<(X, i64)>),
    Pair(Box<X>, Box<X>),
}

#[derive(Clone, Debug)]
enum Op {
    /// mention a leaf so that it gets its id now
    Touch(usize),
    Box(usize, X),
    Has(usize, X),
    Cnt(usize, X, i64),
    L(usize),
    Union(usize, usize),
    Run,
}

struct Kind {
    sort: &'static str,
    decl: &'static str,
}

const KINDS: &[Kind] = &[
    Kind { sort: "VS", decl: "(Vec S)" },
    Kind { sort: "SS", decl: "(Set S)" },
    Kind { sort: "MS", decl: "(MultiSet S)" },
    Kind { sort: "MPV", decl: "(Map i64 S)" },
    Kind { sort: "MPK", decl: "(Map S i64)" },
    Kind { sort: "PR", decl: "(Pair S S)" },
    Kind { sort: "PI", decl: "(Pair S i64)" },
    Kind { sort: "VV", decl: "(Vec VS)" },
    Kind { sort: "SPR", decl: "(Set PR)" },
    Kind { sort: "MVS", decl: "(Map i64 VS)" },
    Kind { sort: "VSS", decl: "(Vec SS)" },
];

fn prelude() -> String {
    let mut s = String::from("(sort S)\n(constructor N (i64) S)\n(relation L (S))\n(ruleset r)\n");
    for k in KINDS {
        s.push_str(&format!("(sort {} {})\n", k.sort, k.decl));
    }
    for (i, k) in KINDS.iter().enumerate() {
        s.push_str(&format!("(constructor Box{i} ({}) S)\n(relation Has{i} ({}))\n(function cnt{i} ({}) i64 :merge (min old new))\n(relation Hit{i} (S))\n", k.sort, k.sort, k.sort));
        s.push_str(&format!("(rule ((= b (Box{i} v)) (Has{i} v)) ((Hit{i} b)) :ruleset r)\n"));
    }
    // primitive rules: matchability depends on container contents
    s.push_str("(relation Len0 (i64))\n(rule ((Has0 v) (= n (vec-length v))) ((Len0 n)) :ruleset r)\n");
    s.push_str("(relation Len1 (i64))\n(rule ((Has1 v) (= n (set-length v))) ((Len1 n)) :ruleset r)\n");
    s.push_str("(relation Len2 (i64))\n(rule ((Has2 v) (= n (multiset-length v))) ((Len2 n)) :ruleset r)\n");
    s.push_str("(relation Len3 (i64))\n(rule ((Has3 v) (= n (map-length v))) ((Len3 n)) :ruleset r)\n");
    s.push_str("(relation In0 (S))\n(rule ((Has0 v) (L x) (vec-contains v x)) ((In0 x)) :ruleset r)\n");
    s.push_str("(relation In1 (S))\n(rule ((Has1 v) (L x) (set-contains v x)) ((In1 x)) :ruleset r)\n");
    s.push_str("(relation In2 (S))\n(rule ((Has2 v) (L x) (multiset-contains v x)) ((In2 x)) :ruleset r)\n");
    s.push_str("(relation In4 (S))\n(rule ((Has4 v) (L x) (map-contains v x)) ((In4 x)) :ruleset r)\n");
    s.push_str("(relation Get0 (S))\n(rule ((Has0 v) (= a (vec-get v 0))) ((Get0 a)) :ruleset r)\n");
    s.push_str("(relation Get3 (S))\n(rule ((Has3 v) (= a (map-get v 0))) ((Get3 a)) :ruleset r)\n");
    s.push_str("(relation Fst5 (S))\n(rule ((Has5 v) (= a (pair-first v))) ((Fst5 a)) :ruleset r)\n");
    s.push_str("(relation Snd5 (S))\n(rule ((Has5 v) (= a (pair-second v))) ((Snd5 a)) :ruleset r)\n");
    s.push_str("(relation Cnt2 (S i64))\n(rule ((Has2 v) (L x) (= n (multiset-count v x)) (> n 0)) ((Cnt2 x n)) :ruleset r)\n");
    s
}

fn text(x: &X) -> String {
    match x {
        X::Leaf(i) => format!("(N {i})"),
        X::Int(i) => i.to_string(),
        X::Box(k, c) => format!("(Box{k} {})", text(c)),
        X::Vec(v) => {
            if v.is_empty() {
                "(vec-empty)".into()
            } else {
                format!("(vec-of {})", v.iter().map(text).collect::<Vec<_>>().join(" "))
            }
        }
        X::Set(v) => {
            if v.is_empty() {
                "(set-empty)".into()
            } else {
                format!("(set-of {})", v.iter().map(text).collect::<Vec<_>>().join(" "))
            }
        }
        X::MSet(v) => format!("(multiset-of{})", v.iter().map(|e| format!(" {}", text(e))).collect::<String>()),
        X::MapV(kv) => {
            let mut s = "(map-empty)".to_string();
            for (k, v) in kv {
                s = format!("(map-insert {s} {k} {})", text(v));
            }
            s
        }
        X::MapK(kv) => {
            let mut s = "(map-empty)".to_string();
            for (k, v) in kv {
                s = format!("(map-insert {s} {} {v})", text(k));
            }
            s
        }
        X::Pair(a, b) => format!("(pair {} {})", text(a), text(b)),
    }
}

struct Uf(Vec<usize>);
impl Uf {
    fn find(&self, mut x: usize) -> usize {
        while self.0[x] != x {
            x = self.0[x];
        }
        x
    }
    fn union(&mut self, a: usize, b: usize) {
        let (ra, rb) = (self.find(a), self.find(b));
        if ra != rb {
            self.0[ra.max(rb)] = ra.min(rb);
        }
    }
}

fn norm(x: &X, uf: &Uf) -> X {
    match x {
        X::Leaf(i) => X::Leaf(uf.find(*i)),
        X::Int(i) => X::Int(*i),
        X::Box(k, c) => X::Box(*k, Box::new(norm(c, uf))),
        X::Vec(v) => X::Vec(v.iter().map(|e| norm(e, uf)).collect()),
        X::Set(v) => {
            let s: BTreeSet<X> = v.iter().map(|e| norm(e, uf)).collect();
            X::Set(s.into_iter().collect())
        }
        X::MSet(v) => {
            let mut s: Vec<X> = v.iter().map(|e| norm(e, uf)).collect();
            s.sort();
            X::MSet(s)
        }
        X::MapV(kv) => {
            // later inserts overwrite earlier ones
            let m: BTreeMap<i64, X> = kv.iter().map(|(k, v)| (*k, norm(v, uf))).collect();
            X::MapV(m.into_iter().collect())
        }
        X::MapK(kv) => {
            let m: BTreeMap<X, i64> = kv.iter().map(|(k, v)| (norm(k, uf), *v)).collect();
            X::MapK(m.into_iter().collect())
        }
        X::Pair(a, b) => X::Pair(Box::new(norm(a, uf)), Box::new(norm(b, uf))),
    }
}

/// all leaves mentioned as MapK keys, per map
fn mapk_keysets(x: &X, out: &mut Vec<Vec<X>>) {
    match x {
        X::MapK(kv) => out.push(kv.iter().map(|(k, _)| k.clone()).collect()),
        X::Box(_, c) => mapk_keysets(c, out),
        X::Vec(v) | X::Set(v) | X::MSet(v) => v.iter().for_each(|e| mapk_keysets(e, out)),
        X::MapV(kv) => kv.iter().for_each(|(_, v)| mapk_keysets(v, out)),
        X::Pair(a, b) => {
            mapk_keysets(a, out);
            mapk_keysets(b, out);
        }
        _ => {}
    }
}

struct G<'a> {
    rng: &'a mut Rng,
    nleaf: usize,
    boxes: Vec<X>,
}

impl G<'_> {
    fn s(&mut self, depth: usize) -> X {
        // an eq-sort element: mostly leaves, sometimes an existing boxed container (nesting through terms)
        if depth > 0 && !self.boxes.is_empty() && self.rng.chance(1, 6) {
            self.rng.pick(&self.boxes).clone()
        } else {
            X::Leaf(self.rng.below(self.nleaf))
        }
    }
    fn cont(&mut self, k: usize, depth: usize) -> X {
        let n = self.rng.below(4);
        match k {
            0 => X::Vec((0..n).map(|_| self.s(depth)).collect()),
            1 => X::Set((0..n).map(|_| self.s(depth)).collect()),
            2 => X::MSet((0..n).map(|_| self.s(depth)).collect()),
            3 => X::MapV((0..n).map(|i| (if self.rng.chance(1, 5) { 0 } else { i as i64 }, self.s(depth))).collect()),
            4 => {
                // distinct leaves as keys (collisions among keys are outside the claim)
                let mut keys: Vec<usize> = vec![];
                for _ in 0..n {
                    let l = self.rng.below(self.nleaf);
                    if !keys.contains(&l) {
                        keys.push(l);
                    }
                }
                X::MapK(keys.into_iter().map(|l| (X::Leaf(l), self.rng.range(0, 3))).collect())
            }
            5 => X::Pair(Box::new(self.s(depth)), Box::new(self.s(depth))),
            6 => X::Pair(Box::new(self.s(depth)), Box::new(X::Int(self.rng.range(0, 2)))),
            7 => X::Vec((0..n).map(|_| self.cont(0, depth)).collect()),
            8 => X::Set((0..n).map(|_| self.cont(5, depth)).collect()),
            9 => X::MapV((0..n).map(|i| (i as i64, self.cont(0, depth))).collect()),
            _ => X::Vec((0..n).map(|_| self.cont(1, depth)).collect()),
        }
    }
}

#[derive(Default)]
struct Expect {
    /// per kind: inserted Box / Has container terms, cnt writes
    boxes: Vec<Vec<X>>,
    has: Vec<Vec<X>>,
    cnt: Vec<Vec<(X, i64)>>,
    leaves_l: BTreeSet<usize>,
    /// accumulated outputs of rules (as original terms / values), re-normalised when compared
    hit: Vec<BTreeSet<X>>,
    len: BTreeMap<&'static str, BTreeSet<i64>>,
    rel_s: BTreeMap<&'static str, BTreeSet<X>>,
    cnt2: BTreeSet<(X, i64)>,
}

impl Expect {
    /// one iteration of ruleset r on the model
    fn fire(&mut self, uf: &Uf) {
        for k in 0..KINDS.len() {
            let hn: BTreeSet<X> = self.has[k].iter().map(|c| norm(c, uf)).collect();
            for c in &self.boxes[k] {
                if hn.contains(&norm(c, uf)) {
                    self.hit[k].insert(X::Box(k, Box::new(c.clone())));
                }
            }
        }
        let ls: Vec<X> = self.leaves_l.iter().map(|l| X::Leaf(uf.find(*l))).collect();
        for (name, k) in [("Len0", 0usize), ("Len1", 1), ("Len2", 2), ("Len3", 3)] {
            for c in &self.has[k] {
                let n = match norm(c, uf) {
                    X::Vec(v) | X::Set(v) | X::MSet(v) => v.len(),
                    X::MapV(kv) => kv.len(),
                    _ => 0,
                };
                self.len.entry(name).or_default().insert(n as i64);
            }
        }
        for (name, k) in [("In0", 0usize), ("In1", 1), ("In2", 2), ("In4", 4)] {
            for c in &self.has[k] {
                let elems: Vec<X> = match norm(c, uf) {
                    X::Vec(v) | X::Set(v) | X::MSet(v) => v,
                    X::MapK(kv) => kv.into_iter().map(|(k, _)| k).collect(),
                    _ => vec![],
                };
                for l in &ls {
                    if elems.contains(l) {
                        self.rel_s.entry(name).or_default().insert(l.clone());
                    }
                }
                if name == "In2" {
                    for l in &ls {
                        let n = elems.iter().filter(|e| *e == l).count();
                        if n > 0 {
                            self.cnt2.insert((l.clone(), n as i64));
                        }
                    }
                }
            }
        }
        for c in &self.has[0] {
            if let X::Vec(v) = c {
                if let Some(f) = v.first() {
                    self.rel_s.entry("Get0").or_default().insert(f.clone());
                }
            }
        }
        for c in &self.has[3] {
            if let X::MapV(kv) = norm(c, uf) {
                if let Some((_, v)) = kv.iter().find(|(k, _)| *k == 0) {
                    self.rel_s.entry("Get3").or_default().insert(v.clone());
                }
            }
        }
        for c in &self.has[5] {
            if let X::Pair(a, b) = c {
                self.rel_s.entry("Fst5").or_default().insert((**a).clone());
                self.rel_s.entry("Snd5").or_default().insert((**b).clone());
            }
        }
    }

    /// expected row count per table under the current partition
    fn sizes(&self, uf: &Uf) -> BTreeMap<String, usize> {
        let mut m = BTreeMap::new();
        let distinct = |v: &Vec<X>| v.iter().map(|c| norm(c, uf)).collect::<BTreeSet<X>>().len();
        for k in 0..KINDS.len() {
            m.insert(format!("Box{k}"), distinct(&self.boxes[k]));
            m.insert(format!("Has{k}"), distinct(&self.has[k]));
            m.insert(format!("cnt{k}"), self.cnt[k].iter().map(|(c, _)| norm(c, uf)).collect::<BTreeSet<X>>().len());
            m.insert(format!("Hit{k}"), self.hit[k].iter().map(|c| norm(c, uf)).collect::<BTreeSet<X>>().len());
        }
        for name in ["Len0", "Len1", "Len2", "Len3"] {
            m.insert(name.to_string(), self.len.get(name).map(|s| s.len()).unwrap_or(0));
        }
        for name in ["In0", "In1", "In2", "In4", "Get0", "Get3", "Fst5", "Snd5"] {
            m.insert(name.to_string(), self.rel_s.get(name).map(|s| s.iter().map(|c| norm(c, uf)).collect::<BTreeSet<X>>().len()).unwrap_or(0));
        }
        m.insert("Cnt2".into(), self.cnt2.iter().map(|(c, n)| (norm(c, uf), *n)).collect::<BTreeSet<_>>().len());
        m
    }
}

pub fn run(a: &Args) -> Report {
    let mut rep = Report::new(
        "C14",
        "generated container histories over 11 container sorts (Vec, Set, MultiSet, Map i64->S, Map S->i64 without key collisions, Pair S S, Pair S i64, Vec<Vec>, Set<Pair>, Map<i64,Vec>, Vec<Set>; eq-sort elements may themselves be boxed containers) with unions among leaves; after every command: C04 invariants, table sizes = number of distinct normal forms in the harness model, sampled (check (= t1 t2)) = normal-form equality; after every single iteration of the rule set (join rules through container-keyed tables and primitive rules length/contains/count/get/first) the output relations must have the model's sizes on a semi-naive and on a naive e-graph and the two canonical dumps must be equal. Big cases: > 1000 containers with few unions. Non-trivial = history where a union changed some container's normal form; distinct by final canonical dump.",
    );
    let n = a.cases(150, 6000);
    let big_every = a.get("big-every").and_then(|s| s.parse::<u64>().ok()).unwrap_or(if a.quick() { 40 } else { 100 });
    let root = Rng::new(a.seed);
    let pre = prelude();
    for case in 0..n {
        let mut rng = root.fork(case);
        let big = big_every > 0 && case % big_every == big_every - 1;
        let nleaf = if big { 1400 } else { *rng.pick(&[3usize, 4, 6, 9]) };
        let mut uf = Uf((0..nleaf).collect());
        let mut ex = Expect { boxes: vec![vec![]; KINDS.len()], has: vec![vec![]; KINDS.len()], cnt: vec![vec![]; KINDS.len()], hit: vec![BTreeSet::new(); KINDS.len()], ..Default::default() };
        let mut semi = EGraph::new(a.threads);
        let mut naive = EGraph::new(a.threads);
        naive.seminaive = false;
        let mut log: Vec<String> = vec![];
        let mut bad = false;
        for eg in [&mut semi, &mut naive] {
            if !run::run(eg, &pre).is_ok() {
                rep.inconclusive("prelude rejected");
                bad = true;
            }
        }
        if bad {
            continue;
        }
        if big {
            // > 1000 containers of two kinds; later a handful of unions (incremental rebuild)
            let mut lines = vec![];
            for i in 100..1350 {
                let v = X::Vec(vec![X::Leaf(i), X::Leaf(i + 1)]);
                lines.push(format!("(Has0 {})", text(&v)));
                ex.has[0].push(v);
                if i % 2 == 0 {
                    let s = X::Set(vec![X::Leaf(i), X::Leaf(i + 3)]);
                    lines.push(format!("(Box1 {})", text(&s)));
                    ex.boxes[1].push(s);
                }
            }
            let t = lines.join("\n");
            for eg in [&mut semi, &mut naive] {
                let _ = run::run(eg, &t);
            }
            log.push(format!("; bulk: 1250 (Has0 (vec-of (N i) (N i+1))) and 625 (Box1 (set-of (N i) (N i+3))), i in 100..1350"));
            rep.count("big_cases", 1);
        }
        let kinds_used: Vec<usize> = {
            let mut v: Vec<usize> = (0..KINDS.len()).collect();
            rng.shuffle(&mut v);
            v.truncate(2 + rng.below(4));
            v
        };
        // Hostile block (scripted prefix): a few leaves created in a chosen id order, small
        // containers over them spread over Box/Has/cnt in a chosen creation order (so that which
        // container id is older varies), one run, then the leaves are unioned step by step with a
        // run after each union. This is the shape in which an in-place rebuilt container collides
        // with an equal container of larger or smaller id and a later union must find it again.
        let mut script: std::collections::VecDeque<Op> = Default::default();
        let hostile_only = a.get("hostile-only") == Some("1");
        if big || hostile_only || rng.chance(1, 2) {
            let base = if big { 0 } else { 0 };
            let mut ls: Vec<usize> = (base..base + (3 + rng.below(2)).min(nleaf)).collect();
            rng.shuffle(&mut ls);
            for l in &ls {
                script.push_back(Op::Touch(*l));
            }
            let k = *rng.pick(&[0usize, 0, 1, 2, 5, 3, 7, 10]);
            let mut conts: Vec<X> = vec![];
            for l in &ls {
                let e = X::Leaf(*l);
                conts.push(match k {
                    0 => X::Vec(vec![e.clone()]),
                    1 => X::Set(vec![e.clone()]),
                    2 => X::MSet(vec![e.clone()]),
                    5 => X::Pair(Box::new(e.clone()), Box::new(X::Leaf(ls[0]))),
                    3 => X::MapV(vec![(0, e.clone())]),
                    7 => X::Vec(vec![X::Vec(vec![e.clone()])]),
                    _ => X::Vec(vec![X::Set(vec![e.clone()])]),
                });
                if rng.chance(1, 2) && matches!(k, 0 | 1 | 2) {
                    let e2 = X::Leaf(*rng.pick(&ls));
                    conts.push(match k {
                        0 => X::Vec(vec![e.clone(), e2]),
                        1 => X::Set(vec![e.clone(), e2]),
                        _ => X::MSet(vec![e.clone(), e2]),
                    });
                }
            }
            rng.shuffle(&mut conts);
            for c in conts {
                script.push_back(match rng.below(3) {
                    0 => Op::Box(k, c),
                    1 => Op::Has(k, c),
                    _ => Op::Cnt(k, c, rng.range(0, 5)),
                });
                if rng.chance(1, 6) {
                    script.push_back(Op::Run);
                }
            }
            for l in &ls {
                if rng.chance(1, 2) {
                    script.push_back(Op::L(*l));
                }
            }
            script.push_back(Op::Run);
            let mut order = ls.clone();
            rng.shuffle(&mut order);
            for w in order.windows(2) {
                script.push_back(Op::Union(w[0], w[1]));
                if rng.chance(3, 4) {
                    script.push_back(Op::Run);
                }
            }
            script.push_back(Op::Run);
            rep.count("hostile_blocks", 1);
        }
        let ncmds = script.len() + if hostile_only { 3 } else { 12 + rng.below(20) };
        let mut changed_by_union = false;
        let mut all_terms: Vec<X> = vec![];
        for ci in 0..ncmds {
            let leafspace = if big { 40 } else { nleaf };
            let op = match script.pop_front() {
                Some(o) => o,
                None => {
                    let r = rng.below(10);
                    let mut g = G { rng: &mut rng, nleaf: leafspace, boxes: ex.boxes.iter().enumerate().flat_map(|(k, v)| v.iter().map(move |c| X::Box(k, Box::new(c.clone())))).take(12).collect() };
                    match r {
                        0..=2 => {
                            let k = *g.rng.pick(&kinds_used);
                            Op::Box(k, g.cont(k, 1))
                        }
                        3 | 4 => {
                            let k = *g.rng.pick(&kinds_used);
                            // reuse an existing boxed container's shape often, so that joins have a chance
                            let c = if !ex.boxes[k].is_empty() && g.rng.chance(1, 2) { g.rng.pick(&ex.boxes[k]).clone() } else { g.cont(k, 1) };
                            Op::Has(k, c)
                        }
                        5 => {
                            let k = *g.rng.pick(&kinds_used);
                            let c = if !ex.boxes[k].is_empty() && g.rng.chance(1, 2) { g.rng.pick(&ex.boxes[k]).clone() } else { g.cont(k, 1) };
                            Op::Cnt(k, c, g.rng.range(0, 5))
                        }
                        6 => Op::L(g.rng.below(leafspace)),
                        7 | 8 => {
                            if big && g.rng.chance(1, 2) {
                                Op::Union(100 + g.rng.below(1200), 100 + g.rng.below(1200))
                            } else {
                                Op::Union(g.rng.below(leafspace), g.rng.below(leafspace))
                            }
                        }
                        _ => Op::Run,
                    }
                }
            };
            let mut is_run = false;
            let cmd: String = match op {
                Op::Touch(l) => format!("(N {l})"),
                Op::Box(k, c) => {
                    ex.boxes[k].push(c.clone());
                    all_terms.push(X::Box(k, Box::new(c.clone())));
                    text(&X::Box(k, Box::new(c)))
                }
                Op::Has(k, c) => {
                    ex.has[k].push(c.clone());
                    format!("(Has{k} {})", text(&c))
                }
                Op::Cnt(k, c, v) => {
                    ex.cnt[k].push((c.clone(), v));
                    format!("(set (cnt{k} {}) {v})", text(&c))
                }
                Op::L(l) => {
                    ex.leaves_l.insert(l);
                    format!("(L (N {l}))")
                }
                Op::Union(x, y) => {
                    // refuse unions that would make two keys of one Map collide (outside the claim)
                    let mut trial = Uf(uf.0.clone());
                    trial.union(x, y);
                    let mut keysets = vec![];
                    for k in 0..KINDS.len() {
                        for c in ex.boxes[k].iter().chain(ex.has[k].iter()).chain(ex.cnt[k].iter().map(|(c, _)| c)) {
                            mapk_keysets(c, &mut keysets);
                        }
                    }
                    let collides = keysets.iter().any(|ks| {
                        let n: BTreeSet<X> = ks.iter().map(|k| norm(k, &trial)).collect();
                        n.len() != ks.len()
                    });
                    if collides {
                        rep.count("unions_refused_map_key_collision", 1);
                        continue;
                    }
                    let before: Vec<X> = all_terms.iter().map(|t| norm(t, &uf)).collect();
                    uf.union(x, y);
                    let after: Vec<X> = all_terms.iter().map(|t| norm(t, &uf)).collect();
                    if before != after {
                        changed_by_union = true;
                    }
                    format!("(union (N {x}) (N {y}))")
                }
                Op::Run => {
                    is_run = true;
                    "(run r 1)".to_string()
                }
            };
            log.push(cmd.clone());
            let o1 = run::run(&mut semi, &cmd);
            let o2 = run::run(&mut naive, &cmd);
            rep.count("commands", 1);
            let violation = |rep: &mut Report, log: &Vec<String>, what: &str| {
                let replay = format!("{}\n{}", prelude(), log.join("\n"));
                rep.violation(&format!("C14:{}", dump::fnv(&replay)), what, &replay);
            };
            match (&o1, &o2) {
                (Outcome::Ok(_), Outcome::Ok(_)) => {}
                (Outcome::Panic(p), _) | (_, Outcome::Panic(p)) => {
                    rep.inconclusive(&format!("panic in C14 case: {p}"));
                    bad = true;
                    break;
                }
                _ => {
                    violation(&mut rep, &log, &format!("command #{ci} `{cmd}` failed: seminaive {} / naive {}", o1.short(), o2.short()));
                    bad = true;
                    break;
                }
            }
            if is_run {
                ex.fire(&uf);
                rep.count("iterations", 1);
            }
            // oracle 3: canonicity
            for (name, eg) in [("seminaive", &semi), ("naive", &naive)] {
                let inv = crate::c04::invariants(eg);
                if !inv.is_empty() {
                    violation(&mut rep, &log, &format!("after command #{ci} `{cmd}` the {name} database is not canonical: {}", inv.iter().take(4).cloned().collect::<Vec<_>>().join("; ")));
                    bad = true;
                }
            }
            if bad {
                break;
            }
            rep.count("invariant_inspections", 2);
            // oracle 1: sizes (the unions/insertions have been rebuilt when the command returned);
            // rule outputs are compared after runs only
            let want = ex.sizes(&uf);
            for (name, eg) in [("seminaive", &semi), ("naive", &naive)] {
                for (t, w) in &want {
                    let got = eg.get_size(t);
                    rep.count("size_checks", 1);
                    if got != *w {
                        violation(
                            &mut rep,
                            &log,
                            &format!("after command #{ci} `{cmd}` ({name}): table {t} has {got} rows, the model (normal forms of the inserted containers under the leaf partition{}) says {w}", if t.starts_with("Hit") || t.starts_with("Len") || t.starts_with("In") || t.starts_with("Get") || t.starts_with("Fst") || t.starts_with("Snd") || t.starts_with("Cnt") { "; rule output: a match enabled by container rebuild must fire in the next iteration" } else { "" }),
                        );
                        bad = true;
                        break;
                    }
                }
                if bad {
                    break;
                }
            }
            if bad {
                break;
            }
            // oracle 2: seminaive == naive
            if is_run || ci % 4 == 0 {
                let d1 = crate::c03::canon(&semi);
                let d2 = crate::c03::canon(&naive);
                rep.count("seminaive_naive_dump_comparisons", 1);
                if d1 != d2 {
                    violation(&mut rep, &log, &format!("after command #{ci} `{cmd}` seminaive and naive databases differ: {}", crate::c03::first_diff(&d1, &d2)));
                    bad = true;
                    break;
                }
            }
            // oracle 1b: sampled equality questions
            if all_terms.len() >= 2 && !big {
                let mut q = semi.clone();
                for _ in 0..6 {
                    let t1 = rng.pick(&all_terms).clone();
                    let t2 = rng.pick(&all_terms).clone();
                    let want = norm(&t1, &uf) == norm(&t2, &uf);
                    let got = run::check(&mut q, &format!("(= {} {})", text(&t1), text(&t2)));
                    rep.count("pair_questions", 1);
                    if want {
                        rep.count("pair_questions_equal", 1);
                    }
                    if let Ok(gv) = got {
                        if gv != want {
                            violation(&mut rep, &log, &format!("after command #{ci}: (check (= {} {})) is {gv}, but the containers' normal forms under the current equalities are {}", text(&t1), text(&t2), if want { "equal" } else { "different" }));
                            bad = true;
                            break;
                        }
                    }
                }
                if bad {
                    break;
                }
            }
        }
        rep.evaluations += 1;
        if changed_by_union && !bad {
            rep.count("histories_union_changed_container", 1);
            rep.nontrivial(&crate::c03::canon(&semi));
        }
        if case < 2 {
            rep.sample(json!({"history": log}));
        }
    }
    rep
}
