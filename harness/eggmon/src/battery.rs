//! `eggmon battery`: run N generated programs in THIS process configuration
//! (thread count, EGGLOG_PARALLEL_* environment, address-space layout, ...)
//! and emit per-program fingerprints. The driver compares fingerprints across
//! child processes: C06 (thread count / cut-offs must not matter) and C20
//! (single-threaded runs are reproducible bit for bit).
use crate::dump::{self, Dump};
use crate::out::Report;
use crate::pgen::{self, GenCfg};
use crate::rng::Rng;
use crate::run::{self, Outcome};
use crate::Args;
use egglog::{CommandOutput, EGraph};
use serde_json::json;

pub fn cfg_for(profile: &str, rng: &mut Rng) -> GenCfg {
    match profile {
        // monotone fragment (C06): no delete, no :no-merge conflicts
        "mono" => GenCfg {
            containers: rng.chance(1, 3),
            subsume: rng.chance(1, 3),
            extracts: true,
            prints: false,
            costs: rng.chance(1, 3),
            n_cmds: (10, 26),
            ..Default::default()
        },
        // fragment the term/proof encoder supports, order-revealing outputs (C20 in encoded modes)
        "enc" => GenCfg {
            containers: rng.chance(1, 4),
            subsume: rng.chance(1, 3),
            pushpop: rng.chance(1, 4),
            extracts: true,
            prints: true,
            n_cmds: (8, 20),
            one_container_per_kind: true,
            ..Default::default()
        },
        // everything, biased to order-revealing outputs (C20)
        _ => GenCfg {
            containers: rng.chance(1, 2),
            subsume: rng.chance(1, 2),
            delete: rng.chance(1, 3),
            pushpop: rng.chance(1, 4),
            nomerge: rng.chance(1, 5),
            extracts: true,
            prints: true,
            costs: rng.chance(1, 2),
            unextractable: rng.chance(1, 4),
            n_cmds: (10, 26),
            ..Default::default()
        },
    }
}

/// Full rendering of command outputs including a timing-free run report.
pub fn render_full(outs: &[CommandOutput]) -> String {
    let mut s = String::new();
    for o in outs {
        match o {
            CommandOutput::RunSchedule(r) => {
                let mut m: Vec<(String, usize)> = r.num_matches_per_rule.iter().map(|(k, v)| (k.to_string(), *v)).collect();
                m.sort();
                s.push_str(&format!("[run updated={} can_stop={} iterations={} matches={:?}]\n", r.updated, r.can_stop, r.iterations.len(), m));
            }
            CommandOutput::OverallStatistics(_) => s.push_str("[stats]\n"),
            other => s.push_str(&other.to_string()),
        }
    }
    s
}

pub fn run(a: &Args) -> Report {
    let profile = a.get("profile").unwrap_or("mono").to_string();
    let mut rep = Report::new(
        "battery",
        "generated programs executed in one process configuration; fingerprints (full outputs, stable projection, canonical dump) compared across child processes by the driver",
    );
    let n = a.cases(60, 600);
    let mode = a.get("mode").unwrap_or("plain").to_string();
    let with_texts = a.get("texts") == Some("1");
    // optional allocation storm to perturb allocator state / addresses
    if let Some(k) = a.get("prealloc") {
        let k: usize = k.parse().unwrap_or(0);
        let mut r = Rng::new(a.seed ^ 0xABCD);
        let mut keep: Vec<Vec<u8>> = vec![];
        for i in 0..k {
            let v = vec![i as u8; 1 + r.below(4096)];
            if r.chance(1, 2) {
                keep.push(v);
            }
        }
        std::hint::black_box(&keep);
        drop(keep);
    }
    let root = Rng::new(a.seed);
    let mut cases = vec![];
    // optional fixed files (the repo's own programs) appended after the generated cases
    let files: Vec<String> = a.get("files").map(|s| s.split(',').filter(|x| !x.is_empty()).map(|x| x.to_string()).collect()).unwrap_or_default();
    for case in 0..(n + files.len() as u64) {
        let mut rng = root.fork(case);
        let texts: Vec<String> = if case < n {
            let cfg = cfg_for(&profile, &mut rng);
            let (_sig, cmds) = pgen::gen_history(&mut rng, &cfg);
            cmds.iter().map(|c| c.to_string()).collect()
        } else {
            let f = &files[(case - n) as usize];
            rep.count("repo_files", 1);
            crate::exec::split_toplevel(&std::fs::read_to_string(f).unwrap_or_default())
        };
        let mut eg = crate::exec::new_egraph(&mode, a.threads);
        if a.get("naive") == Some("1") {
            eg.seminaive = false;
        }
        let mut full = String::new();
        let mut stable = String::new();
        let mut panicked = false;
        for t in &texts {
            if case < n && eg.num_tuples() > 20000 {
                // deterministic cut-off (depends only on the program), keeps dumps tractable
                break;
            }
            if case < n && run::skip_run_on_large_db(&eg, t) {
                continue;
            }
            match run::run_raw(&mut eg, t) {
                Ok(outs) => {
                    full.push_str(&render_full(&outs));
                    stable.push_str("ok:");
                    stable.push_str(&CommandOutput::snapshot_stable_under_proof_encoding(&outs));
                }
                Err(Outcome::Err(e)) => {
                    full.push_str(&format!("ERR {e}\n"));
                    stable.push_str(if e.contains("Check failed") { "check-failed;" } else { "err;" });
                }
                Err(Outcome::Panic(p)) => {
                    full.push_str(&format!("PANIC {p}\n"));
                    stable.push_str("panic;");
                    panicked = true;
                    break;
                }
                Err(Outcome::Ok(_)) => unreachable!(),
            }
        }
        dump::register_unordered_from(&eg);
        let d = Dump::take(&eg, false);
        let canon = d.canonical();
        rep.evaluations += 1;
        rep.count("commands", texts.len() as u64);
        if panicked {
            rep.count("programs_with_panic", 1);
        }
        if d.total_rows() > 0 {
            rep.nontrivial(&canon);
        }
        let mut c = json!({
            "i": case,
            "h_full": format!("{:016x}", dump::fnv(&full)),
            "h_stable": format!("{:016x}", dump::fnv(&stable)),
            "h_canon": format!("{:016x}", dump::fnv(&canon)),
            "rows": d.total_rows(),
        });
        if with_texts {
            c["text"] = json!(texts.join("\n"));
            c["full"] = json!(full);
        }
        cases.push(c);
    }
    rep.samples.push(json!({"cases": cases}));
    rep
}
