//! C05 — a function's value is the merge of everything ever written to its key.
//!
//! Oracle: history + model. The harness issues a multiset of writes (key term,
//! value) and a set of unions between key terms; the expected table is the fold of
//! the lattice operation over all writes whose keys end up in one class (classes
//! from a tiny congruence closure in the harness). The same multiset is replayed
//! in several orders and batchings (one command per write, all in one rule firing,
//! split over rule iterations, unions before / between / after the writes); every
//! replay must agree with the fold and with every other replay. `:no-merge`: two
//! different values for one key must raise an error, equal values must not.
use crate::c13;
use crate::c15::read_all;
use crate::dump::{self, Dump, V};
use crate::out::Report;
use crate::rng::Rng;
use crate::run::{self, Outcome};
use crate::Args;
use egglog::EGraph;
use serde_json::json;
use std::collections::{BTreeMap, BTreeSet};

#[derive(Clone, Copy, Debug, PartialEq, Eq)]
enum Lat {
    Min,
    Max,
    Or,
    And,
    SetUnion,
    SetIntersect,
    /// merge through another function table: `:merge (lubt old new)`, lubt = max on the value domain
    NestedMax,
    /// composite expression: `:merge (min (max old new) 7)` (max capped at 7: ACI on the domain)
    CappedMax,
}

#[derive(Clone, Debug, PartialEq, Eq, PartialOrd, Ord)]
enum Val {
    I(i64),
    B(bool),
    S(BTreeSet<i64>),
}

impl Val {
    fn text(&self) -> String {
        match self {
            Val::I(i) => i.to_string(),
            Val::B(b) => b.to_string(),
            Val::S(s) => {
                if s.is_empty() {
                    "(set-empty)".into()
                } else {
                    format!("(set-of {})", s.iter().map(|x| x.to_string()).collect::<Vec<_>>().join(" "))
                }
            }
        }
    }
    /// rendering used by the dump for this value
    fn dump_text(&self) -> String {
        match self {
            Val::I(i) => i.to_string(),
            Val::B(b) => b.to_string(),
            Val::S(s) => format!("[IS {}]", s.iter().map(|x| x.to_string()).collect::<Vec<_>>().join(" ")),
        }
    }
}

impl Lat {
    fn decl(&self) -> (&'static str, &'static str) {
        match self {
            Lat::Min => ("i64", "(min old new)"),
            Lat::Max => ("i64", "(max old new)"),
            Lat::Or => ("bool", "(or old new)"),
            Lat::And => ("bool", "(and old new)"),
            Lat::SetUnion => ("IS", "(set-union old new)"),
            Lat::SetIntersect => ("IS", "(set-intersect old new)"),
            Lat::NestedMax => ("i64", "(lubt old new)"),
            Lat::CappedMax => ("i64", "(min (max old new) 7)"),
        }
    }
    fn fold(&self, a: &Val, b: &Val) -> Val {
        match (self, a, b) {
            (Lat::Min, Val::I(x), Val::I(y)) => Val::I(*x.min(y)),
            (Lat::Max, Val::I(x), Val::I(y)) => Val::I(*x.max(y)),
            (Lat::Or, Val::B(x), Val::B(y)) => Val::B(*x || *y),
            (Lat::And, Val::B(x), Val::B(y)) => Val::B(*x && *y),
            (Lat::SetUnion, Val::S(x), Val::S(y)) => Val::S(x.union(y).copied().collect()),
            (Lat::SetIntersect, Val::S(x), Val::S(y)) => Val::S(x.intersection(y).copied().collect()),
            (Lat::NestedMax, Val::I(x), Val::I(y)) => Val::I(*x.max(y)),
            (Lat::CappedMax, Val::I(x), Val::I(y)) => Val::I((*x.max(y)).min(7)),
            _ => unreachable!(),
        }
    }
    fn sample(&self, rng: &mut Rng) -> Val {
        match self {
            Lat::Min | Lat::Max | Lat::NestedMax => Val::I(rng.range(-5, 9)),
            // values stay <= 7 so that a single write equals its own capped fold
            Lat::CappedMax => Val::I(rng.range(-5, 7)),
            Lat::Or | Lat::And => Val::B(rng.chance(1, 2)),
            _ => Val::S((0..rng.below(4)).map(|_| rng.range(0, 5)).collect()),
        }
    }
}

/// key terms: constants A0..A5 and F applied to constants
fn key_terms() -> Vec<String> {
    let mut v: Vec<String> = (0..5).map(|i| format!("(A{i})")).collect();
    for i in 0..4 {
        v.push(format!("(F (A{i}))"));
    }
    v
}

/// congruence closure over the key terms: returns class representative index per key term
fn closure(terms: &[String], unions: &[(usize, usize)]) -> Vec<usize> {
    let n = terms.len();
    let mut cls: Vec<usize> = (0..n).collect();
    let merge = |cls: &mut Vec<usize>, a: usize, b: usize| {
        let (ca, cb) = (cls[a], cls[b]);
        if ca != cb {
            let (k, d) = (ca.min(cb), ca.max(cb));
            for c in cls.iter_mut() {
                if *c == d {
                    *c = k;
                }
            }
        }
    };
    for (a, b) in unions {
        merge(&mut cls, *a, *b);
    }
    loop {
        let mut changed = false;
        // F(Ai) ~ F(Aj) when Ai ~ Aj
        for i in 0..4 {
            for j in 0..4 {
                if cls[i] == cls[j] && cls[5 + i] != cls[5 + j] {
                    merge(&mut cls, 5 + i, 5 + j);
                    changed = true;
                }
            }
        }
        if !changed {
            break;
        }
    }
    cls
}

struct Case {
    lat: Lat,
    arity2: bool,
    writes: Vec<(usize, i64, Val)>, // (key term index, second i64 key, value)
    unions: Vec<(usize, usize)>,
}

fn prelude(c: &Case) -> String {
    let (out, merge) = c.lat.decl();
    let args = if c.arity2 { "K i64" } else { "K" };
    let nested = if c.lat == Lat::NestedMax {
        let mut t = String::from("(function lubt (i64 i64) i64 :merge (max old new))\n");
        for x in -5..=9 {
            for y in -5..=9 {
                t.push_str(&format!("(set (lubt {x} {y}) {})\n", x.max(y)));
            }
        }
        t
    } else {
        String::new()
    };
    format!(
        "{nested}(sort K)\n(sort IS (Set i64))\n(constructor A0 () K)\n(constructor A1 () K)\n(constructor A2 () K)\n(constructor A3 () K)\n(constructor A4 () K)\n(constructor F (K) K)\n(function f ({args}) {out} :merge {merge})\n(relation Step (i64))\n(ruleset w)\n(A0) (A1) (A2) (A3) (A4) (F (A0)) (F (A1)) (F (A2)) (F (A3))"
    )
}

fn set_text(c: &Case, terms: &[String], w: &(usize, i64, Val)) -> String {
    if c.arity2 {
        format!("(set (f {} {}) {})", terms[w.0], w.1, w.2.text())
    } else {
        format!("(set (f {}) {})", terms[w.0], w.2.text())
    }
}

/// one replay: program text
fn replay(c: &Case, terms: &[String], rng: &mut Rng, mode: usize) -> String {
    let mut order: Vec<usize> = (0..c.writes.len()).collect();
    rng.shuffle(&mut order);
    let mut unions = c.unions.clone();
    rng.shuffle(&mut unions);
    let utext: Vec<String> = unions.iter().map(|(a, b)| format!("(union {} {})", terms[*a], terms[*b])).collect();
    let mut prog = vec![prelude(c)];
    match mode {
        0 => {
            // one command per write, unions interleaved at random positions
            let mut items: Vec<String> = order.iter().map(|i| set_text(c, terms, &c.writes[*i])).collect();
            for u in utext {
                let pos = rng.below(items.len() + 1);
                items.insert(pos, u);
            }
            prog.extend(items);
        }
        1 => {
            // unions first, then all writes in ONE rule firing (in-batch staging)
            prog.extend(utext);
            let acts: Vec<String> = order.iter().map(|i| set_text(c, terms, &c.writes[*i])).collect();
            prog.push(format!("(rule ((Step 0)) ({}) :ruleset w)", acts.join(" ")));
            prog.push("(Step 0)".into());
            prog.push("(run w 1)".into());
        }
        2 => {
            // all writes in one rule firing, unions afterwards (keys collapse through rebuild)
            let acts: Vec<String> = order.iter().map(|i| set_text(c, terms, &c.writes[*i])).collect();
            prog.push(format!("(rule ((Step 0)) ({}) :ruleset w)", acts.join(" ")));
            prog.push("(Step 0)".into());
            prog.push("(run w 1)".into());
            prog.extend(utext);
        }
        3 => {
            // split across rule iterations; unions performed by rule heads in the middle
            let k = 2 + rng.below(3);
            let mut per: Vec<Vec<String>> = vec![vec![]; k];
            for (j, i) in order.iter().enumerate() {
                per[j % k].push(set_text(c, terms, &c.writes[*i]));
            }
            for (j, u) in utext.iter().enumerate() {
                per[j % k].push(u.clone());
            }
            for (s, acts) in per.iter().enumerate() {
                prog.push(format!("(rule ((Step {s})) ({} (Step {})) :ruleset w)", acts.join(" "), s + 1));
            }
            prog.push("(Step 0)".into());
            prog.push(format!("(run w {})", k + 1));
        }
        _ => {
            // half of the writes, then the unions, then the other half (each half one command per write)
            let half = order.len() / 2;
            prog.extend(order[..half].iter().map(|i| set_text(c, terms, &c.writes[*i])));
            prog.extend(utext);
            prog.extend(order[half..].iter().map(|i| set_text(c, terms, &c.writes[*i])));
        }
    }
    prog.join("\n")
}

pub fn run(a: &Args) -> Report {
    let mut rep = Report::new(
        "C05",
        "write multisets over a lattice-merge function (min, max, or, and, set-union, set-intersect; keys are eq-sort terms that unions and congruence collapse, optionally a second i64 key column) replayed in 6 orders/batchings (per-command, single rule firing before/after the unions, split over rule iterations with unions in rule heads, half/unions/half); the final table must equal the harness' fold over the congruence classes of the keys and all replays must agree. :no-merge: conflicting writes must raise an error, equal ones must not. Non-trivial = multiset with a key receiving >= 2 distinct values or keys collapsed by a union; distinct by (lattice, expected table).",
    );
    let n = a.cases(400, 16000);
    let root = Rng::new(a.seed);
    let terms = key_terms();
    for case in 0..n {
        let mut rng = root.fork(case);
        let lat = *rng.pick(&[Lat::Min, Lat::Max, Lat::Or, Lat::And, Lat::SetUnion, Lat::SetIntersect, Lat::SetUnion, Lat::NestedMax, Lat::CappedMax]);
        let c = Case {
            lat,
            arity2: rng.chance(1, 3),
            writes: (0..(2 + rng.below(12))).map(|_| (rng.below(terms.len()), rng.range(0, 1), lat.sample(&mut rng))).collect(),
            unions: (0..rng.below(4)).map(|_| (rng.below(terms.len()), rng.below(terms.len()))).collect(),
        };
        let cls = closure(&terms, &c.unions);
        // expected: fold per (class, second key)
        let mut expected: BTreeMap<(usize, i64), Val> = BTreeMap::new();
        let mut collisions = 0;
        for (k, k2, v) in &c.writes {
            let key = (cls[*k], if c.arity2 { *k2 } else { 0 });
            match expected.get(&key) {
                Some(old) => {
                    if old != v {
                        collisions += 1;
                    }
                    let m = c.lat.fold(old, v);
                    expected.insert(key, m);
                }
                None => {
                    expected.insert(key, v.clone());
                }
            }
        }
        rep.evaluations += 1;
        let mut first_canon: Option<String> = None;
        for r in 0..6usize {
            let prog = replay(&c, &terms, &mut rng, r % 5);
            let mut eg = EGraph::new(a.threads);
            let mut failed = None;
            for cmd in crate::exec::split_toplevel(&prog) {
                match run::run(&mut eg, &cmd) {
                    Outcome::Ok(_) => {}
                    o => {
                        failed = Some(format!("`{cmd}` -> {}", o.short()));
                        break;
                    }
                }
            }
            rep.count("replays", 1);
            rep.count(&format!("replay_mode_{}", r % 5), 1);
            if let Some(f) = failed {
                rep.violation(&format!("C05:error:{}", dump::fnv(&prog)), &format!("a lattice write sequence failed: {f}"), &prog);
                break;
            }
            dump::register_unordered_from(&eg);
            let d = Dump::take(&eg, false);
            // read f through the dump
            let ft = d.tables.iter().find(|t| t.name == "f").unwrap();
            let mut got: BTreeMap<(String, i64), String> = BTreeMap::new();
            for row in &ft.rows {
                let n = row.vals.len();
                let k0 = format!("{:?}", canon(&row.vals[0]));
                let k2 = if c.arity2 { if let V::Base(b) = &row.vals[1] { b.parse().unwrap_or(0) } else { 0 } } else { 0 };
                got.insert((k0, k2), render(&row.vals[n - 1]));
            }
            let empty = BTreeMap::new();
            let mut ok = got.len() == expected.len();
            let mut detail = String::new();
            for ((clsidx, k2), want) in &expected {
                // class key of this class through any member term
                let member = cls.iter().position(|x| x == clsidx).unwrap();
                let s = &read_all(&terms[member]).unwrap()[0];
                let key = c13::eval_pub(&d, s, &empty).map(|(k, _)| format!("{k:?}"));
                let g = key.as_ref().and_then(|k| got.get(&(k.clone(), *k2)));
                rep.count("keys_checked", 1);
                if g.map(|x| x.as_str()) != Some(want.dump_text().as_str()) {
                    ok = false;
                    detail = format!("key {} (second key {k2}): stored {:?}, fold of all writes to the class is {}", terms[member], g, want.dump_text());
                    break;
                }
            }
            if !ok {
                if detail.is_empty() {
                    detail = format!("table has {} rows, expected {}", got.len(), expected.len());
                }
                rep.violation(&format!("C05:fold:{}", dump::fnv(&prog)), &format!("{:?} replay mode {}: {detail}", c.lat, r % 5), &prog);
                break;
            }
            // all replays agree on the function table (up to renaming of ids)
            let canon_f: String = d.canonical().lines().skip_while(|l| !l.starts_with("f (")).take_while(|l| l.starts_with("f (") || l.starts_with("  ")).collect::<Vec<_>>().join("\n");
            match &first_canon {
                None => first_canon = Some(canon_f),
                Some(fc) => {
                    if *fc != canon_f {
                        rep.violation(&format!("C05:order:{}", dump::fnv(&prog)), "two replays of the same write multiset disagree", &prog);
                        break;
                    }
                }
            }
            if case < 2 && r == 3 {
                rep.sample(json!({"lattice": format!("{:?}", c.lat), "program": prog, "expected": expected.iter().map(|(k, v)| format!("{}|{} -> {}", terms[cls.iter().position(|x| *x == k.0).unwrap()], k.1, v.dump_text())).collect::<Vec<_>>()}));
            }
        }
        if collisions > 0 || c.unions.iter().any(|(x, y)| x != y) {
            rep.count("multisets_with_collisions_or_collapsed_keys", 1);
            rep.nontrivial(&format!("{:?}|{:?}", c.lat, expected));
        }
        // :no-merge
        {
            let k = rng.below(5);
            let (v1, v2) = (rng.range(0, 3), rng.range(0, 3));
            let prog = format!("(sort K)\n(constructor A0 () K)\n(constructor A1 () K)\n(constructor A2 () K)\n(constructor A3 () K)\n(constructor A4 () K)\n(function g (K) i64 :no-merge)\n(set (g (A{k})) {v1})");
            let mut eg = EGraph::new(a.threads);
            let _ = run::run(&mut eg, &prog);
            let second = if rng.chance(1, 2) {
                format!("(set (g (A{k})) {v2})")
            } else {
                // conflict created by a union (surfaces inside rebuild)
                let k2 = (k + 1) % 5;
                format!("(set (g (A{k2})) {v2})\n(union (A{k}) (A{k2}))")
            };
            let mut errored = false;
            for cmd in crate::exec::split_toplevel(&second) {
                if !run::run(&mut eg, &cmd).is_ok() {
                    errored = true;
                }
            }
            rep.count("nomerge_cases", 1);
            if (v1 != v2) != errored {
                rep.violation(
                    &format!("C05:nomerge:{}", dump::fnv(&format!("{prog}{second}"))),
                    &format!(":no-merge function: writes {v1} and {v2} to one key {}", if errored { "raised an error although they are equal" } else { "were accepted silently although they differ" }),
                    &format!("{prog}\n{second}"),
                );
            }
        }
    }
    rep
}

fn canon(v: &V) -> V {
    match v {
        V::Id(s, _, c) => V::Id(s.clone(), *c, *c),
        o => o.clone(),
    }
}

fn render(v: &V) -> String {
    match v {
        V::Base(b) => b.clone(),
        V::Cont(s, _, items) => {
            let mut parts: Vec<i64> = items.iter().filter_map(|x| if let V::Base(b) = x { b.parse().ok() } else { None }).collect();
            parts.sort();
            format!("[{s} {}]", parts.iter().map(|x| x.to_string()).collect::<Vec<_>>().join(" "))
        }
        V::Id(s, _, c) => format!("{s}-{c}"),
    }
}
