//! Running commands against an EGraph with panic capture.
use egglog::{CommandOutput, EGraph};
use std::panic::{AssertUnwindSafe, catch_unwind};

#[derive(Clone, Debug, PartialEq, Eq)]
pub enum Outcome {
    Ok(Vec<String>),
    Err(String),
    Panic(String),
}

impl Outcome {
    pub fn is_ok(&self) -> bool {
        matches!(self, Outcome::Ok(_))
    }
    pub fn kind(&self) -> &'static str {
        match self {
            Outcome::Ok(_) => "ok",
            Outcome::Err(_) => "err",
            Outcome::Panic(_) => "panic",
        }
    }
    /// Outcome with machine-generated `@`-symbols (fresh-name counters) masked.
    pub fn norm(&self) -> Outcome {
        fn mask(s: &str) -> String {
            let mut out = String::new();
            let mut chars = s.chars().peekable();
            while let Some(c) = chars.next() {
                out.push(c);
                if c == '@' {
                    while let Some(n) = chars.peek() {
                        if n.is_alphanumeric() || *n == '_' {
                            chars.next();
                        } else {
                            break;
                        }
                    }
                }
            }
            out
        }
        match self {
            Outcome::Ok(v) => Outcome::Ok(v.iter().map(|x| mask(x)).collect()),
            Outcome::Err(e) => Outcome::Err(mask(e)),
            Outcome::Panic(e) => Outcome::Panic(mask(e)),
        }
    }
    pub fn short(&self) -> String {
        match self {
            Outcome::Ok(v) => format!("ok:{}", v.join("")),
            Outcome::Err(e) => format!("err:{}", e.replace('\n', " // ")),
            Outcome::Panic(e) => format!("panic:{e}"),
        }
    }
}

pub fn panic_message(e: Box<dyn std::any::Any + Send>) -> String {
    if let Some(s) = e.downcast_ref::<&str>() {
        s.to_string()
    } else if let Some(s) = e.downcast_ref::<String>() {
        s.clone()
    } else {
        "<non-string panic>".into()
    }
}

thread_local! {
    static LAST_PANIC_LOC: std::cell::RefCell<String> = const { std::cell::RefCell::new(String::new()) };
}

/// Install a panic hook that is silent but remembers the panic location
/// (file:line) of the last panic on this thread.
pub fn quiet_panics() {
    let show = std::env::var("VERIF_SHOW_PANICS").is_ok();
    let prev = std::panic::take_hook();
    std::panic::set_hook(Box::new(move |info| {
        let loc = info
            .location()
            .map(|l| format!("{}:{}", l.file().trim_start_matches("/repo/"), l.line()))
            .unwrap_or_default();
        LAST_PANIC_LOC.with(|c| *c.borrow_mut() = loc);
        if show {
            prev(info);
        }
    }));
}

pub fn last_panic_location() -> String {
    LAST_PANIC_LOC.with(|c| c.borrow().clone())
}

/// Run program text; outputs rendered with Display.
pub fn run(eg: &mut EGraph, text: &str) -> Outcome {
    match run_raw(eg, text) {
        Ok(outs) => Outcome::Ok(outs.iter().map(|o| o.to_string()).collect()),
        Err(o) => o,
    }
}

pub fn run_raw(eg: &mut EGraph, text: &str) -> Result<Vec<CommandOutput>, Outcome> {
    let r = catch_unwind(AssertUnwindSafe(|| eg.parse_and_run_program(None, text)));
    match r {
        Ok(Ok(outs)) => Ok(outs),
        Ok(Err(e)) => Err(Outcome::Err(e.to_string())),
        Err(p) => Err(Outcome::Panic(format!("{} @ {}", panic_message(p), last_panic_location()))),
    }
}

/// Does `(check facts)` succeed? Runs on the e-graph itself (check has no effect
/// besides possibly inserting the ground terms it mentions, so callers that need
/// purity pass a clone).
pub fn check(eg: &mut EGraph, facts: &str) -> Result<bool, String> {
    match run(eg, &format!("(check {facts})")) {
        Outcome::Ok(_) => Ok(true),
        Outcome::Err(e) if e.contains("Check failed") => Ok(false),
        Outcome::Err(e) => Err(e),
        Outcome::Panic(p) => Err(format!("panic: {p}")),
    }
}

/// Run and project the outputs onto what is stable across thread counts and
/// encodings (check outcome, sizes, extraction cost): upstream's own
/// `snapshot_stable_under_proof_encoding`.
pub fn run_stable(eg: &mut EGraph, text: &str) -> Outcome {
    match run_raw(eg, text) {
        Ok(outs) => Outcome::Ok(vec![CommandOutput::snapshot_stable_under_proof_encoding(&outs)]),
        Err(o) => o,
    }
}

/// Full outputs when single-threaded (deterministic by C20), stable projection otherwise
/// (row order of print-function and tie-breaking in extract may depend on scheduling).
pub fn run_for_compare(eg: &mut EGraph, text: &str, threads: usize) -> Outcome {
    if threads <= 1 { run(eg, text) } else { run_stable(eg, text) }
}

/// Deterministic growth guard used by every generated-program monitor: a `run` is not
/// started on a database that is already large (term-building rules multiply it per
/// iteration). Depends only on the program, so differential runs truncate identically.
pub fn skip_run_on_large_db(eg: &EGraph, text: &str) -> bool {
    text.trim_start().starts_with("(run") && eg.num_tuples() > 600
}
