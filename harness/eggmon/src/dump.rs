//! Canonical dump of an e-graph through the public read API only.
//!
//! The *raw* view keeps e-class ids as stored; the *canonical* view names every
//! e-class by its least ground term (size, then string order), computed here by a
//! least fixpoint over the dumped constructor rows (never by the engine's
//! extractor). Classes with no term are named by colour refinement.
use egglog::{ArcSort, Core, EGraph, TermDag, Value};
use egglog_numeric_id::NumericId;
use std::collections::{BTreeMap, BTreeSet, HashMap};

#[derive(Clone, Debug, PartialEq, Eq, Hash, PartialOrd, Ord)]
pub enum V {
    /// (sort name, raw id as stored, canonical id per value_to_class_id)
    Id(String, u32, u32),
    Base(String),
    /// (sort name, kind, ordered?, items)
    Cont(String, u32, Vec<V>),
}

#[derive(Clone, Debug)]
pub struct Row {
    pub vals: Vec<V>,
    pub subsumed: bool,
}

#[derive(Clone, Debug)]
pub struct Table {
    pub name: String,
    pub is_constructor: bool,
    pub is_let: bool,
    pub in_sorts: Vec<String>,
    pub out_sort: String,
    pub out_is_eq: bool,
    pub rows: Vec<Row>,
}

#[derive(Clone, Debug, Default)]
pub struct Dump {
    pub tables: Vec<Table>,
}

fn sort_kind(s: &ArcSort) -> u8 {
    if s.is_eq_sort() {
        0
    } else if s.is_container_sort() {
        2
    } else {
        1
    }
}

pub fn render_value(eg: &EGraph, sort: &ArcSort, v: Value) -> V {
    match sort_kind(sort) {
        0 => {
            let cid = eg.value_to_class_id(sort, v).to_string();
            let canon: u32 = cid.rsplit_once('-').unwrap().1.parse().unwrap();
            V::Id(sort.name().to_string(), v.rep(), canon)
        }
        1 => {
            let s = eg.read(|rs| {
                let mut td = TermDag::default();
                let t = sort.reconstruct_termdag_base(rs.base_values(), v, &mut td);
                td.to_string(t)
            });
            V::Base(s)
        }
        _ => {
            let inner: Vec<(ArcSort, Value)> =
                eg.read(|rs| sort.inner_values(rs.container_values(), v));
            let items = inner.iter().map(|(s, x)| render_value(eg, s, *x)).collect();
            V::Cont(sort.name().to_string(), v.rep(), items)
        }
    }
}

impl Dump {
    /// `include_hidden`: also dump compiler-generated helper tables.
    pub fn take(eg: &EGraph, include_hidden: bool) -> Dump {
        let mut tables = vec![];
        let mut anon_lets = 0usize;
        let funcs: Vec<(String, egglog::Function)> = eg
            .functions_iter()
            .map(|(n, f)| (n.clone(), f.clone()))
            .collect();
        for (name, f) in funcs {
            if f.is_hidden() && !include_hidden {
                continue;
            }
            let ft = f.func_type().clone();
            let is_constructor = matches!(ft.subtype, egglog::ast::FunctionSubtype::Constructor);
            let mut raw: Vec<(Vec<Value>, bool)> = vec![];
            if is_constructor {
                let _ = eg.constructor_enodes(&name, |e| {
                    let mut v = e.children.to_vec();
                    v.push(e.eclass);
                    raw.push((v, e.subsumed));
                });
            } else {
                let _ = eg.function_entries(&name, |e| {
                    let mut v = e.inputs.to_vec();
                    v.push(e.output);
                    raw.push((v, e.subsumed));
                });
            }
            let mut sorts: Vec<ArcSort> = ft.input.clone();
            sorts.push(ft.output.clone());
            let rows = raw
                .into_iter()
                .map(|(vals, subsumed)| Row {
                    vals: vals
                        .iter()
                        .zip(sorts.iter())
                        .map(|(v, s)| render_value(eg, s, *v))
                        .collect(),
                    subsumed,
                })
                .collect();
            // machine-generated global names (`@v93`: top-level expressions under the term encoding)
            // carry the fresh-symbol counter, which is not an observable of the database: number
            // them by order of declaration instead
            let shown = if f.is_let_binding() && name.starts_with('@') {
                anon_lets += 1;
                format!("@let{anon_lets}")
            } else {
                f.term_constructor().map(|s| s.to_string()).unwrap_or(name.clone())
            };
            tables.push(Table {
                name: shown,
                is_constructor,
                is_let: f.is_let_binding(),
                in_sorts: ft.input.iter().map(|s| s.name().to_string()).collect(),
                out_sort: ft.output.name().to_string(),
                out_is_eq: ft.output.is_eq_sort(),
                rows,
            });
        }
        Dump { tables }
    }

    pub fn total_rows(&self) -> usize {
        self.tables.iter().map(|t| t.rows.len()).sum()
    }

    /// All non-canonical stored ids: (table, row index, column path)
    pub fn noncanonical_ids(&self) -> Vec<String> {
        fn walk(v: &V, path: &str, out: &mut Vec<String>) {
            match v {
                V::Id(s, raw, canon) => {
                    if raw != canon {
                        out.push(format!("{path}: {s}-{raw} is not canonical (canonical is {canon})"));
                    }
                }
                V::Base(_) => {}
                V::Cont(_, _, items) => {
                    for (i, x) in items.iter().enumerate() {
                        walk(x, &format!("{path}[{i}]"), out);
                    }
                }
            }
        }
        let mut out = vec![];
        for t in &self.tables {
            for (ri, r) in t.rows.iter().enumerate() {
                for (ci, v) in r.vals.iter().enumerate() {
                    walk(v, &format!("{} row{} col{}", t.name, ri, ci), &mut out);
                }
            }
        }
        out
    }

    /// Keys with more than one row; and (for constructor tables) rows that are
    /// congruent after canonicalising the ids but stored separately.
    pub fn duplicate_keys(&self) -> Vec<String> {
        let mut out = vec![];
        for t in &self.tables {
            let mut seen_raw: HashMap<Vec<V>, usize> = HashMap::new();
            let mut seen_canon: HashMap<Vec<V>, usize> = HashMap::new();
            for (ri, r) in t.rows.iter().enumerate() {
                let key: Vec<V> = r.vals[..r.vals.len() - 1].to_vec();
                if let Some(prev) = seen_raw.insert(key.clone(), ri) {
                    out.push(format!("{}: rows {} and {} share key {:?}", t.name, prev, ri, key));
                }
                let ckey: Vec<V> = key.iter().map(canon_v).collect();
                if let Some(prev) = seen_canon.insert(ckey.clone(), ri) {
                    if prev != ri && t.rows[prev].vals[..key.len()] != key[..] {
                        out.push(format!(
                            "{}: rows {} and {} are congruent (same canonical key {:?}) but stored separately",
                            t.name, prev, ri, ckey
                        ));
                    }
                }
            }
        }
        out
    }

    /// Two container ids (same sort) with equal canonical contents.
    pub fn duplicate_containers(&self) -> Vec<String> {
        let mut seen: HashMap<(String, Vec<V>), u32> = HashMap::new();
        let mut out = BTreeSet::new();
        fn walk(v: &V, seen: &mut HashMap<(String, Vec<V>), u32>, out: &mut BTreeSet<String>) {
            if let V::Cont(sort, id, items) = v {
                for x in items {
                    walk(x, seen, out);
                }
                let key = (sort.clone(), items.iter().map(canon_v).collect::<Vec<_>>());
                match seen.get(&key) {
                    Some(prev) if prev != id => {
                        out.insert(format!(
                            "container sort {sort}: ids {prev} and {id} have equal contents {:?}",
                            key.1
                        ));
                    }
                    Some(_) => {}
                    None => {
                        seen.insert(key, *id);
                    }
                }
            }
        }
        for t in &self.tables {
            for r in &t.rows {
                for v in &r.vals {
                    walk(v, &mut seen, &mut out);
                }
            }
        }
        out.into_iter().collect()
    }

    /// Canonical naming of classes: map (sort, canon id) -> name.
    pub fn class_names(&self) -> BTreeMap<(String, u32), String> {
        // Least ground term per class, in two passes so that the result does not depend on
        // the order of rows or tables: (1) least fixpoint of the minimum term SIZE per class;
        // (2) classes in increasing size order: the name is the least string among the rows
        // that realise the minimum size, composed from the (already final, strictly smaller)
        // names of the children.
        let mut size: HashMap<(String, u32), usize> = HashMap::new();
        fn size_of(v: &V, size: &HashMap<(String, u32), usize>) -> Option<usize> {
            match v {
                V::Id(s, _, c) => size.get(&(s.clone(), *c)).copied(),
                V::Base(_) => Some(1),
                V::Cont(_, _, items) => {
                    let mut sz = 1;
                    for x in items {
                        sz += size_of(x, size)?;
                    }
                    Some(sz)
                }
            }
        }
        loop {
            let mut changed = false;
            for t in &self.tables {
                if !t.is_constructor || !t.out_is_eq {
                    continue;
                }
                'row: for r in &t.rows {
                    let n = r.vals.len();
                    let key = match &r.vals[n - 1] {
                        V::Id(s, _, c) => (s.clone(), *c),
                        _ => continue,
                    };
                    let mut sz = 1;
                    for v in &r.vals[..n - 1] {
                        match size_of(v, &size) {
                            Some(k) => sz += k,
                            None => continue 'row,
                        }
                    }
                    match size.get(&key) {
                        Some(cur) if *cur <= sz => {}
                        _ => {
                            size.insert(key, sz);
                            changed = true;
                        }
                    }
                }
            }
            if !changed {
                break;
            }
        }
        let mut best: HashMap<(String, u32), (usize, String)> = HashMap::new();
        fn name_of(v: &V, best: &HashMap<(String, u32), (usize, String)>) -> Option<(usize, String)> {
            match v {
                V::Id(s, _, c) => best.get(&(s.clone(), *c)).cloned(),
                V::Base(b) => Some((1, b.clone())),
                V::Cont(s, _, items) => {
                    let mut sz = 1;
                    let mut parts = vec![];
                    for x in items {
                        let (n, t) = name_of(x, best)?;
                        sz += n;
                        parts.push(t);
                    }
                    if !is_ordered_container(s, items) {
                        parts = sort_container_parts(s, parts);
                    }
                    Some((sz, format!("[{} {}]", s, parts.join(" "))))
                }
            }
        }
        // rows realising the minimum size of their class, grouped by that size
        let mut by_size: BTreeMap<usize, Vec<(&Table, &Row)>> = BTreeMap::new();
        for t in &self.tables {
            if !t.is_constructor || !t.out_is_eq {
                continue;
            }
            'row2: for r in &t.rows {
                let n = r.vals.len();
                let key = match &r.vals[n - 1] {
                    V::Id(s, _, c) => (s.clone(), *c),
                    _ => continue,
                };
                let mut sz = 1;
                for v in &r.vals[..n - 1] {
                    match size_of(v, &size) {
                        Some(k) => sz += k,
                        None => continue 'row2,
                    }
                }
                if size.get(&key) == Some(&sz) {
                    by_size.entry(sz).or_default().push((t, r));
                }
            }
        }
        for (sz, rows) in by_size {
            let mut round: HashMap<(String, u32), String> = HashMap::new();
            for (t, r) in rows {
                let n = r.vals.len();
                let key = match &r.vals[n - 1] {
                    V::Id(s, _, c) => (s.clone(), *c),
                    _ => continue,
                };
                let mut parts = vec![];
                let mut ok = true;
                for v in &r.vals[..n - 1] {
                    match name_of(v, &best) {
                        Some((_, t)) => parts.push(t),
                        None => ok = false,
                    }
                }
                if !ok {
                    continue;
                }
                let name = if parts.is_empty() { format!("({})", t.name) } else { format!("({} {})", t.name, parts.join(" ")) };
                // big terms are named by a structural hash (still canonical: it depends only
                // on the constructor and the children's final names), so that names stay short
                // even when sub-terms are shared (a DAG would otherwise print exponentially)
                let name = if name.len() > 120 { format!("({}#{:016x}/{})", t.name, fnv(&name), sz) } else { name };
                match round.get(&key) {
                    Some(cur) if *cur <= name => {}
                    _ => {
                        round.insert(key, name);
                    }
                }
            }
            for (k, name) in round {
                best.insert(k, (sz, name));
            }
        }
        let mut names: BTreeMap<(String, u32), String> =
            best.into_iter().map(|(k, v)| (k, v.1)).collect();
        // colour refinement for unnamed classes
        let mut unnamed: BTreeSet<(String, u32)> = BTreeSet::new();
        fn collect(v: &V, names: &BTreeMap<(String, u32), String>, un: &mut BTreeSet<(String, u32)>) {
            match v {
                V::Id(s, _, c) => {
                    if !names.contains_key(&(s.clone(), *c)) {
                        un.insert((s.clone(), *c));
                    }
                }
                V::Base(_) => {}
                V::Cont(_, _, items) => items.iter().for_each(|x| collect(x, names, un)),
            }
        }
        for t in &self.tables {
            for r in &t.rows {
                for v in &r.vals {
                    collect(v, &names, &mut unnamed);
                }
            }
        }
        if !unnamed.is_empty() {
            let mut colour: BTreeMap<(String, u32), String> =
                unnamed.iter().map(|k| (k.clone(), format!("?{}", k.0))).collect();
            for _round in 0..6 {
                let mut occ: BTreeMap<(String, u32), Vec<String>> = BTreeMap::new();
                for t in &self.tables {
                    for r in &t.rows {
                        let rendered: Vec<String> = r
                            .vals
                            .iter()
                            .map(|v| render_named(v, &names, &colour))
                            .collect();
                        let line = format!("{} {} {}", t.name, rendered.join(" "), r.subsumed);
                        for (ci, v) in r.vals.iter().enumerate() {
                            let mut ids = BTreeSet::new();
                            collect(v, &names, &mut ids);
                            for id in ids {
                                occ.entry(id).or_default().push(format!("{ci}@{line}"));
                            }
                        }
                    }
                }
                let mut next = BTreeMap::new();
                for k in &unnamed {
                    let mut o = occ.remove(k).unwrap_or_default();
                    o.sort();
                    next.insert(k.clone(), format!("?{}#{:016x}", k.0, fnv(&o.join("|"))));
                }
                colour = next;
            }
            names.extend(colour);
        }
        names
    }

    /// Canonical text: per table, sorted rows with ids replaced by class names.
    pub fn canonical(&self) -> String {
        let names = self.class_names();
        let empty = BTreeMap::new();
        let mut tabs: Vec<(String, Vec<String>)> = vec![];
        for t in &self.tables {
            let mut rows: Vec<String> = t
                .rows
                .iter()
                .map(|r| {
                    let n = r.vals.len();
                    let cols: Vec<String> = r
                        .vals
                        .iter()
                        .enumerate()
                        .filter(|(i, _)| !(t.is_constructor && *i == n - 1 && !t.out_is_eq))
                        .map(|(_, v)| render_named(v, &names, &empty))
                        .collect();
                    format!("  {}{}", cols.join(" | "), if r.subsumed { "  [subsumed]" } else { "" })
                })
                .collect();
            rows.sort();
            tabs.push((t.name.clone(), rows));
        }
        tabs.sort();
        let mut s = String::new();
        for (n, rows) in tabs {
            s.push_str(&format!("{} ({} rows)\n", n, rows.len()));
            for r in rows {
                s.push_str(&r);
                s.push('\n');
            }
        }
        s
    }

    /// Raw text, for witnesses.
    pub fn raw_text(&self) -> String {
        let mut s = String::new();
        for t in &self.tables {
            s.push_str(&format!("{} ({} rows)\n", t.name, t.rows.len()));
            for r in &t.rows {
                s.push_str(&format!("  {:?}{}\n", r.vals, if r.subsumed { " [subsumed]" } else { "" }));
            }
        }
        s
    }
}

fn is_ordered_container(_sort: &str, _items: &[V]) -> bool {
    // The harness cannot see the container kind from the name alone; the
    // engine returns set/multiset/map contents in id order, which renaming can
    // permute. Callers register unordered sorts via `set_unordered_sorts`.
    UNORDERED.with(|u| !u.borrow().contains_key(_sort))
}

fn sort_container_parts(sort: &str, parts: Vec<String>) -> Vec<String> {
    // maps come as k,v,k,v: sort pairs
    let chunk = UNORDERED.with(|u| *u.borrow().get(sort).unwrap_or(&1));
    let mut groups: Vec<String> = parts.chunks(chunk).map(|c| c.join("=>")).collect();
    groups.sort();
    groups
}

thread_local! {
    static UNORDERED: std::cell::RefCell<HashMap<String, usize>> = std::cell::RefCell::new(HashMap::new());
}

/// Declare container sorts whose element order is id-dependent (Set, MultiSet: chunk 1; Map: chunk 2).
pub fn set_unordered_sorts(m: HashMap<String, usize>) {
    UNORDERED.with(|u| *u.borrow_mut() = m);
}

/// Is this container sort registered as unordered (Set / MultiSet / Map)?
pub fn is_unordered(sort: &str) -> bool {
    UNORDERED.with(|u| u.borrow().contains_key(sort))
}

/// Detect unordered container sorts from the e-graph's declared sorts.
pub fn register_unordered_from(eg: &EGraph) {
    use egglog::sort::{MapContainer, MultiSetContainer, SetContainer};
    use std::any::TypeId;
    let mut m = HashMap::new();
    for s in eg.get_arcsorts_by(|s| s.is_container_sort()) {
        let vt = s.value_type();
        if vt == Some(TypeId::of::<SetContainer>()) || vt == Some(TypeId::of::<MultiSetContainer>()) {
            m.insert(s.name().to_string(), 1);
        } else if vt == Some(TypeId::of::<MapContainer>()) {
            m.insert(s.name().to_string(), 2);
        }
    }
    set_unordered_sorts(m);
}

fn canon_v(v: &V) -> V {
    match v {
        V::Id(s, _, c) => V::Id(s.clone(), *c, *c),
        V::Base(b) => V::Base(b.clone()),
        V::Cont(s, _, items) => {
            let mut it: Vec<V> = items.iter().map(canon_v).collect();
            if !is_ordered_container(s, items) {
                let chunk = UNORDERED.with(|u| *u.borrow().get(s).unwrap_or(&1));
                let mut groups: Vec<Vec<V>> = it.chunks(chunk).map(|c| c.to_vec()).collect();
                groups.sort();
                it = groups.into_iter().flatten().collect();
            }
            V::Cont(s.clone(), 0, it)
        }
    }
}

fn render_named(
    v: &V,
    names: &BTreeMap<(String, u32), String>,
    colour: &BTreeMap<(String, u32), String>,
) -> String {
    match v {
        V::Id(s, _, c) => {
            let k = (s.clone(), *c);
            names
                .get(&k)
                .or_else(|| colour.get(&k))
                .cloned()
                .unwrap_or_else(|| format!("?{s}"))
        }
        V::Base(b) => b.clone(),
        V::Cont(s, _, items) => {
            let mut parts: Vec<String> = items.iter().map(|x| render_named(x, names, colour)).collect();
            if !is_ordered_container(s, items) {
                parts = sort_container_parts(s, parts);
            }
            format!("[{} {}]", s, parts.join(" "))
        }
    }
}

pub fn fnv(s: &str) -> u64 {
    let mut h: u64 = 0xcbf29ce484222325;
    for b in s.as_bytes() {
        h ^= *b as u64;
        h = h.wrapping_mul(0x100000001b3);
    }
    h
}
