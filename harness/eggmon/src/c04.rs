//! C04 — the database is canonical and consistent after every command.
//!
//! Oracle: invariants recomputed from the public read API after every single
//! command (Ok or Err) of generated histories that include fault sequences.
use crate::dump::{self, Dump};
use crate::pgen::{self, Cmd, GenCfg};
use crate::out::Report;
use crate::rng::Rng;
use crate::run::{self, Outcome};
use crate::Args;
use egglog::EGraph;
use serde_json::json;

pub fn invariants(eg: &EGraph) -> Vec<String> {
    dump::register_unordered_from(eg);
    let d = Dump::take(eg, false);
    let mut v = d.noncanonical_ids();
    v.extend(d.duplicate_keys());
    v.extend(d.duplicate_containers());
    v
}

/// Fault commands: fail at run time, after possibly staging effects.
fn fault_cmds(rng: &mut Rng, sig: &pgen::Sig, g: &mut pgen::Gen) -> Vec<Cmd> {
    let rs = sig.rulesets[0].clone();
    let mut v = vec![];
    match rng.below(4) {
        0 => {
            // a rule that panics, sharing an iteration with other rules of the ruleset
            let (body, _) = g.body(rng, 1);
            v.push(Cmd::Rule {
                body,
                head: vec![pgen::Act::Panic("boom".into())],
                opts: pgen::RuleOpts { ruleset: rs.clone(), ..Default::default() },
            });
            v.push(Cmd::Run(rs, 1));
        }
        1 => {
            // :no-merge conflict at top level
            v.push(Cmd::Raw("(function nm (i64) i64 :no-merge)".into()));
            v.push(Cmd::Raw("(set (nm 1) 1)".into()));
            v.push(Cmd::Raw("(set (nm 1) 2)".into()));
        }
        2 => {
            // failing primitive in an action (division by zero / vec-get out of range)
            v.push(Cmd::Raw("(function fp (i64) i64 :merge (min old new))".into()));
            v.push(Cmd::Raw("(set (fp 0) (/ 1 0))".into()));
        }
        _ => {
            // failed lookup in a top-level action
            v.push(Cmd::Raw("(function lk (i64) i64 :no-merge)".into()));
            v.push(Cmd::Raw("(function lk2 (i64) i64 :merge (min old new))".into()));
            v.push(Cmd::Raw("(set (lk2 0) (lk 7))".into()));
        }
    }
    v
}

pub fn run(a: &Args) -> Report {
    let mut rep = Report::new(
        "C04",
        "generated histories (inserts, unions, sets, lets, rules, runs, subsume, delete, push/pop, containers) with injected run-time faults; after EVERY command the raw dump is checked for non-canonical ids, duplicate/congruent keys and duplicate containers. Non-trivial = history in which at least one union or rule run changed the database; distinct by final canonical dump.",
    );
    let n = a.cases(150, 3000);
    let root = Rng::new(a.seed);
    for case in 0..n {
        let mut rng = root.fork(case);
        let cfg = GenCfg {
            containers: rng.chance(1, 3),
            nested_containers: rng.chance(1, 3),
            subsume: rng.chance(1, 2),
            delete: rng.chance(1, 3),
            pushpop: rng.chance(1, 4),
            nomerge: rng.chance(1, 4),
            ..Default::default()
        };
        let (sig, mut cmds) = pgen::gen_history(&mut rng, &cfg);
        // inject a fault sequence at a random position for ~40% of histories
        let with_fault = rng.chance(2, 5) && !cmds.iter().any(|c| matches!(c, Cmd::Push | Cmd::Pop));
        if with_fault {
            let mut g = pgen::Gen::new(&sig, &cfg);
            let f = fault_cmds(&mut rng, &sig, &mut g);
            let ndecl = cmds.iter().take_while(|c| matches!(c, Cmd::Decl(_))).count();
            let pos = ndecl + rng.below(cmds.len() - ndecl + 1).min(cmds.len() - ndecl);
            let pos = pos.min(cmds.len().saturating_sub(3).max(ndecl));
            for (i, c) in f.into_iter().enumerate() {
                cmds.insert(pos + i, c);
            }
        }
        let mut eg = EGraph::new(a.threads);
        let mut errs = 0;
        let mut after_err = 0;
        let mut changed = false;
        let mut last_rows = 0;
        let mut log: Vec<String> = vec![];
        for (ci, c) in cmds.iter().enumerate() {
            let text = c.to_string();
            if run::skip_run_on_large_db(&eg, &text) {
                rep.count("runs_skipped_large_db", 1);
                continue;
            }
            let o = run::run(&mut eg, &text);
            log.push(format!("{text}   ; => {}", o.kind()));
            match &o {
                Outcome::Ok(_) => {
                    if errs > 0 {
                        after_err += 1;
                    }
                }
                Outcome::Err(_) => errs += 1,
                Outcome::Panic(_) => errs += 1, // panics are C09's business
            }
            rep.count("commands", 1);
            if eg.num_tuples() > 6000 {
                rep.count("histories_truncated_large_db", 1);
                break;
            }
            let bad = invariants(&eg);
            rep.count("inspections", 1);
            if !bad.is_empty() {
                let replay = cmds[..=ci].iter().map(|c| c.to_string()).collect::<Vec<_>>().join("\n");
                rep.violation(
                    &format!("C04:{}", dump::fnv(&replay)),
                    &format!("after command #{ci} `{text}` ({}): {}", o.kind(), bad.join("; ")),
                    &replay,
                );
                break;
            }
            if matches!(c, Cmd::Run(..) | Cmd::RunSchedule(..) | Cmd::Act(pgen::Act::Union(..))) {
                let rows = eg.num_tuples();
                if rows != last_rows {
                    changed = true;
                }
                last_rows = rows;
            }
        }
        rep.evaluations += 1;
        if with_fault {
            rep.count("histories_with_runtime_fault", 1);
        }
        if errs > 0 {
            rep.count("histories_with_failed_command", 1);
            if after_err >= 3 {
                rep.count("histories_with_3_commands_after_failure", 1);
            }
        }
        if changed {
            dump::register_unordered_from(&eg);
            let canon = Dump::take(&eg, false).canonical();
            rep.nontrivial(&canon);
        }
        if case < 2 {
            rep.sample(json!({"history": log}));
        }
    }
    rep
}
