//! C18 — custom schedulers are offered every match, lose none, and keep the DB sound.
//!
//! An instrumented `Scheduler` records every `filter_matches` call (rule, offered
//! tuples, chosen indexes). The monitor checks, step by step:
//!  (a) conservation: every match offered and not chosen is offered again at the next
//!      step (as a multiset, modulo the equalities that hold by then);
//!  (b) completeness: every substitution satisfying the body on the pre-step database
//!      (nested-loop oracle over the dump, projected on the head's variables) has been
//!      offered by then, whenever the scheduler asked to seek;
//!  (c) soundness of offers: every freshly offered tuple is such a projection (so none
//!      rests on a subsumed row);
//!  (d) actions ran for precisely the chosen matches, under the ids that hold after the
//!      step: every head carries a probe insert `(Pk head-vars)`, and Pk after the step
//!      must equal canon(Pk before ∪ chosen);
//!  (e) C04's invariants after every step, also after a failing step, and the rulesets
//!      and schedulers are still usable after a failure;
//!  (f) choose-all ≡ built-in stepping on a sibling e-graph, after every step;
//!  (g) any fair policy reaches the saturated database the built-in schedule reaches
//!      (rules here build no new terms, so programs are confluent and terminating).
//! Between steps the harness writes (unions, inserts, subsumes) so that residual matches
//! go stale.
use crate::dump::{self, Dump, V};
use crate::model::{Model, MV};
use crate::out::Report;
use crate::pgen::{self, Act, Cmd, Fact, GenCfg, RuleOpts, Sig, Ty, T};
use crate::rng::Rng;
use crate::run::{self, Outcome};
use crate::Args;
use egglog::scheduler::{Matches, Scheduler};
use egglog::{EGraph, Value};
use egglog_numeric_id::NumericId;
use serde_json::json;
use std::collections::{BTreeMap, BTreeSet, HashMap};
use std::sync::{Arc, Mutex};

#[derive(Clone, Copy, Debug, PartialEq, Eq)]
enum Policy {
    All,
    NoneThenAll(u32),
    Random(u32),
    OneAtATime,
    FirstN(usize),
    /// choose everything but never ask for new matches after the first call
    NeverReseek,
}

#[derive(Clone, Debug)]
struct Call {
    rule: String,
    offered: Vec<Vec<Value>>,
    chosen: Vec<usize>,
    all: bool,
    seek: bool,
}

#[derive(Clone)]
struct Mon {
    log: Arc<Mutex<Vec<Call>>>,
    policy: Policy,
    rng: Arc<Mutex<Rng>>,
    calls: u32,
    head_vars: Arc<HashMap<String, Vec<String>>>,
    /// override: choose everything (saturation phase of unfair policies)
    force_all: Arc<Mutex<bool>>,
}

impl Scheduler for Mon {
    fn filter_matches(&mut self, rule: &str, _ruleset: &str, matches: &mut Matches) -> bool {
        let vars = self.head_vars.get(rule).cloned().unwrap_or_default();
        let n = matches.match_size();
        let mut offered = Vec::with_capacity(n);
        for i in 0..n {
            let m = matches.get_match(i);
            offered.push(vars.iter().map(|v| m.get_value(v)).collect::<Vec<Value>>());
        }
        self.calls += 1;
        let mut chosen = vec![];
        let mut all = false;
        let force = *self.force_all.lock().unwrap();
        let mut rng = self.rng.lock().unwrap();
        let seek = match if force { Policy::All } else { self.policy } {
            Policy::All => {
                all = true;
                true
            }
            Policy::NoneThenAll(k) => {
                if self.calls > k {
                    all = true;
                }
                true
            }
            Policy::Random(p) => {
                for i in 0..n {
                    if rng.chance(p, 10) {
                        chosen.push(i);
                    }
                }
                // sometimes choose an index twice: `choose` must tolerate it
                if !chosen.is_empty() && rng.chance(1, 5) {
                    chosen.push(chosen[0]);
                }
                true
            }
            Policy::OneAtATime => {
                if n > 0 {
                    chosen.push(rng.below(n));
                }
                true
            }
            Policy::FirstN(k) => {
                if n <= k {
                    all = true;
                    true
                } else {
                    chosen.extend(0..k);
                    false // back off: do not seek until the backlog is drained
                }
            }
            Policy::NeverReseek => {
                all = true;
                false
            }
        };
        if all {
            matches.choose_all();
        } else {
            for c in &chosen {
                matches.choose(*c);
            }
        }
        self.log.lock().unwrap().push(Call { rule: rule.to_string(), offered, chosen, all, seek });
        seek
    }
}

struct RuleDef {
    name: String,
    body: Vec<Fact>,
    head_vars: Vec<(String, Ty)>,
    probe: String,
    text: String,
}

fn gen_rule(rng: &mut Rng, sig: &Sig, g: &pgen::Gen, idx: usize, ruleset: &str) -> (RuleDef, String) {
    let natoms = 1 + rng.weighted(&[4, 4, 2]);
    let (body, vars) = g.body(rng, natoms);
    // `(= (C ..) v)` rather than `(= v (C ..))`: rule canonicalisation substitutes the FIRST
    // variable of an equation by the other side, and `Match::get_value` looks variables up
    // by their surviving name.
    let body: Vec<Fact> = body
        .into_iter()
        .map(|f| match f {
            Fact::Eq(v @ T::Var(_), app @ T::App(..)) => Fact::Eq(app, v),
            o => o,
        })
        .collect();
    let mut head: Vec<Act> = vec![];
    let eqs: Vec<&(String, Ty)> = vars.iter().filter(|v| matches!(v.1, Ty::Eq(_))).collect();
    let variable_free = rng.chance(1, 7);
    if variable_free {
        let r = rng.pick(&sig.rels);
        let args = r.args.iter().map(|a| g.ground(rng, a, 0)).collect();
        head.push(Act::Expr(T::App(r.name.clone(), args)));
    } else {
        for _ in 0..(1 + rng.below(2)) {
            match rng.below(3) {
                0 if !eqs.is_empty() => {
                    let a = rng.pick(&eqs);
                    let same: Vec<&&(String, Ty)> = eqs.iter().filter(|v| v.1 == a.1).collect();
                    let b = rng.pick(&same);
                    if a.0 != b.0 {
                        head.push(Act::Union(T::Var(a.0.clone()), T::Var(b.0.clone())));
                    } else if let Ty::Eq(s) = a.1 {
                        let nulls: Vec<&pgen::Ctor> = sig.ctors_of(s).into_iter().filter(|c| c.args.is_empty()).collect();
                        head.push(Act::Union(T::Var(a.0.clone()), T::App(rng.pick(&nulls).name.clone(), vec![])));
                    }
                }
                _ => {
                    let r = rng.pick(&sig.rels);
                    let mut args = vec![];
                    for a in &r.args {
                        let same: Vec<&(String, Ty)> = vars.iter().filter(|v| v.1 == *a).collect();
                        if !same.is_empty() && rng.chance(4, 5) {
                            args.push(T::Var(rng.pick(&same).0.clone()));
                        } else {
                            args.push(g.ground(rng, a, 0));
                        }
                    }
                    head.push(Act::Expr(T::App(r.name.clone(), args)));
                }
            }
        }
        if head.is_empty() {
            let r = &sig.rels[0];
            head.push(Act::Expr(T::App(r.name.clone(), r.args.iter().map(|a| g.ground(rng, a, 0)).collect())));
        }
    }
    // head variables, in a fixed order
    let mut hv: Vec<String> = vec![];
    for a in &head {
        match a {
            Act::Union(x, y) => {
                x.vars(&mut hv);
                y.vars(&mut hv);
            }
            Act::Expr(t) => t.vars(&mut hv),
            _ => {}
        }
    }
    hv.sort();
    let head_vars: Vec<(String, Ty)> = hv.iter().map(|n| vars.iter().find(|v| &v.0 == n).unwrap().clone()).collect();
    let probe = format!("P{idx}");
    head.push(Act::Expr(T::App(probe.clone(), head_vars.iter().map(|v| T::Var(v.0.clone())).collect())));
    let decl = format!("(relation {probe} ({}))", head_vars.iter().map(|v| sig.ty_name(&v.1)).collect::<Vec<_>>().join(" "));
    let name = format!("r{idx}");
    let cmd = Cmd::Rule { body: body.clone(), head, opts: RuleOpts { ruleset: ruleset.to_string(), name: Some(name.clone()), naive: false, no_decomp: rng.chance(1, 6) } };
    (RuleDef { name, body, head_vars, probe, text: cmd.to_string() }, decl)
}

/// canonical key of a raw value under the e-graph's current equalities
fn key_of(eg: &EGraph, sig: &Sig, ty: &Ty, v: Value) -> MV {
    match ty {
        Ty::I64 => MV::Int(eg.value_to_base::<i64>(v)),
        other => {
            let sort = eg.get_sort_by_name(&sig.ty_name(other)).unwrap().clone();
            match dump::render_value(eg, &sort, v) {
                V::Id(_, _, c) => MV::Id(c as usize),
                _ => MV::Int(i64::MIN),
            }
        }
    }
}

fn canon_tuple(eg: &EGraph, sig: &Sig, tys: &[(String, Ty)], t: &[Value]) -> Vec<MV> {
    t.iter().zip(tys.iter()).map(|(v, (_, ty))| key_of(eg, sig, ty, *v)).collect()
}

fn probe_rows(d: &Dump, name: &str) -> BTreeSet<Vec<MV>> {
    let mut s = BTreeSet::new();
    if let Some(t) = d.tables.iter().find(|t| t.name == name) {
        for r in &t.rows {
            let n = r.vals.len();
            s.insert(
                r.vals[..n - 1]
                    .iter()
                    .map(|v| match v {
                        V::Id(_, _, c) => MV::Id(*c as usize),
                        V::Base(b) => MV::Int(b.parse().unwrap_or(i64::MIN)),
                        _ => MV::Int(i64::MIN),
                    })
                    .collect(),
            );
        }
    }
    s
}

fn multiset(v: &[Vec<MV>]) -> BTreeMap<Vec<MV>, usize> {
    let mut m = BTreeMap::new();
    for x in v {
        *m.entry(x.clone()).or_insert(0) += 1;
    }
    m
}

pub fn run(a: &Args) -> Report {
    let mut rep = Report::new(
        "C18",
        "generated programs (1-4 named rules, 1-3 atoms, heads that union / insert / use no variables, each with a probe insert of its head variables) stepped through an instrumented scheduler under 6 policies (all, none-then-all, random subsets incl. double choose, one at a time, first-n back-off, never-reseek) with unions / inserts / subsumes written between steps; per step: conservation of unchosen matches, completeness and soundness of offers against a nested-loop oracle on the pre-step dump, probe relation = chosen matches under post-step ids, C04 invariants, choose-all = built-in stepping, fair policies = built-in saturation, rulesets/schedulers intact after a failing step. Non-trivial = program where some match was held back for at least one step and applied later; distinct by (policy, final canonical dump).",
    );
    let n = a.cases(200, 8000);
    let root = Rng::new(a.seed);
    for case in 0..n {
        let mut rng = root.fork(case);
        let cfg = GenCfg { rules: false, n_cmds: (4, 10), checks: false, ..Default::default() };
        let (sig, mut cmds) = pgen::gen_history(&mut rng, &cfg);
        let (k1, k2, k3) = (1 + rng.below(4) as u32, 1 + rng.below(8) as u32, 1 + rng.below(4));
        let policy = *rng.pick(&[Policy::All, Policy::All, Policy::NoneThenAll(k1), Policy::Random(k2), Policy::OneAtATime, Policy::FirstN(k3), Policy::NeverReseek]);
        let with_subsume = rng.chance(1, 4);
        let with_fault = rng.chance(1, 8);
        let g = pgen::Gen::new(&sig, &cfg);
        let rs = sig.rulesets[0].clone();
        let mut rules: Vec<RuleDef> = vec![];
        for i in 0..(1 + rng.below(4)) {
            let (rd, decl) = gen_rule(&mut rng, &sig, &g, i, &rs);
            cmds.push(Cmd::Raw(decl));
            cmds.push(Cmd::Raw(rd.text.clone()));
            rules.push(rd);
        }
        let mut eg = EGraph::new(a.threads);
        let mut sib = EGraph::new(a.threads); // built-in stepping sibling (policy All only)
        let mut log: Vec<String> = vec![];
        let mut ok = true;
        for c in &cmds {
            if matches!(c, Cmd::Act(Act::Expr(T::Var(_)))) {
                continue;
            }
            let text = c.to_string();
            if text.starts_with("(run") || text.starts_with("(check") {
                continue;
            }
            log.push(text.clone());
            let o = run::run(&mut eg, &text);
            let _ = run::run(&mut sib, &text);
            if !o.is_ok() {
                ok = false;
                rep.inconclusive(&format!("setup command failed: {text} -> {}", o.short()));
                break;
            }
        }
        if !ok {
            continue;
        }
        rep.evaluations += 1;
        rep.count(&format!("policy_{:?}", policy).split('(').next().unwrap().to_string(), 1);
        let calls = Arc::new(Mutex::new(vec![]));
        let force_all = Arc::new(Mutex::new(false));
        let head_vars: HashMap<String, Vec<String>> = rules.iter().map(|r| (r.name.clone(), r.head_vars.iter().map(|v| v.0.clone()).collect())).collect();
        let mon = Mon { log: calls.clone(), policy, rng: Arc::new(Mutex::new(rng.fork(777))), calls: 0, head_vars: Arc::new(head_vars), force_all: force_all.clone() };
        let sid = eg.add_scheduler(Box::new(mon));
        // per rule: residual (raw values) after the previous step; everything offered so far (raw)
        let mut residual: HashMap<String, Vec<Vec<Value>>> = HashMap::new();
        let mut ever: HashMap<String, Vec<Vec<Value>>> = HashMap::new();
        let mut seek_next: HashMap<String, bool> = rules.iter().map(|r| (r.name.clone(), true)).collect();
        let mut held_back_applied = false;
        let mut bad = false;
        let nsteps = 3 + rng.below(6);
        let mut fault_done = false;
        let violation = |rep: &mut Report, log: &Vec<String>, what: &str| {
            let replay = format!("; policy {:?}\n{}", policy, log.join("\n"));
            rep.violation(&format!("C18:{}", dump::fnv(&replay)), what, &replay);
        };
        'steps: for step in 0..(nsteps + 40) {
            let saturating = step >= nsteps;
            if saturating && (with_subsume || fault_done) {
                break;
            }
            if step == nsteps {
                // saturation phase: fair from here on (unfair policies are switched to choose-all)
                if matches!(policy, Policy::NeverReseek) {
                    break;
                }
                rep.count("saturation_phases", 1);
            }
            // writes between offer and apply
            if !saturating && step > 0 {
                for _ in 0..rng.below(3) {
                    let s = rng.below(sig.sorts.len());
                    let w = match rng.below(if with_subsume { 4 } else { 3 }) {
                        0 => Cmd::Act(Act::Union(g.gd(&mut rng, &Ty::Eq(s), 0, 2), g.gd(&mut rng, &Ty::Eq(s), 0, 2))),
                        1 => Cmd::Act(Act::Expr(g.gd(&mut rng, &Ty::Eq(s), 1, 2))),
                        2 => {
                            let r = rng.pick(&sig.rels);
                            Cmd::Act(Act::Expr(T::App(r.name.clone(), r.args.iter().map(|x| g.gd(&mut rng, x, 0, 2)).collect())))
                        }
                        _ => {
                            let nonnull: Vec<&pgen::Ctor> = sig.ctors.iter().filter(|c| !c.args.is_empty()).collect();
                            let c = *rng.pick(&nonnull);
                            let t = T::App(c.name.clone(), c.args.iter().map(|x| g.gd(&mut rng, x, 0, 2)).collect());
                            Cmd::Raw(format!("{t}\n(subsume {t})"))
                        }
                    };
                    if matches!(&w, Cmd::Act(Act::Expr(T::Var(_)))) {
                        continue;
                    }
                    let text = w.to_string();
                    log.push(text.clone());
                    let o = run::run(&mut eg, &text);
                    let _ = run::run(&mut sib, &text);
                    if !o.is_ok() {
                        rep.inconclusive(&format!("interleaved write failed: {text} -> {}", o.short()));
                        break 'steps;
                    }
                    rep.count("writes_between_steps", 1);
                }
            }
            // optional fault: a panicking rule joins the ruleset for one step
            let mut faulty = false;
            if with_fault && !fault_done && step == 1 {
                let t = format!("(rule ((= boomv ({}))) ((panic \"boom\")) :ruleset {rs} :name \"boom\")", sig.ctors.iter().find(|c| c.args.is_empty()).unwrap().name);
                log.push(t.clone());
                let _ = run::run(&mut eg, &t);
                let _ = run::run(&mut eg, &format!("({})", sig.ctors.iter().find(|c| c.args.is_empty()).unwrap().name));
                faulty = true;
                fault_done = true;
            }
            dump::register_unordered_from(&eg);
            let before = Dump::take(&eg, false);
            let Some(oracle_db) = Model::from_dump(&before) else {
                rep.inconclusive("dump not representable");
                break;
            };
            // oracle matches per rule, projected on head variables
            let mut oracle: HashMap<String, BTreeSet<Vec<MV>>> = HashMap::new();
            let mut oracle_ok = true;
            for r in &rules {
                let q = oracle_db.compile_body(&r.body);
                match oracle_db.matches(&q, 100000) {
                    Ok(envs) => {
                        let set: BTreeSet<Vec<MV>> = envs.iter().map(|e| r.head_vars.iter().map(|v| e[&v.0]).collect()).collect();
                        oracle.insert(r.name.clone(), set);
                    }
                    Err(_) => oracle_ok = false,
                }
            }
            if !oracle_ok {
                rep.count("cases_stopped_oracle_unsupported", 1);
                break;
            }
            // canonicalise residual / ever-offered under the equalities that hold now
            let residual_now: HashMap<String, Vec<Vec<MV>>> =
                rules.iter().map(|r| (r.name.clone(), residual.get(&r.name).map(|v| v.iter().map(|t| canon_tuple(&eg, &sig, &r.head_vars, t)).collect()).unwrap_or_default())).collect();
            let probes_before: HashMap<String, BTreeSet<Vec<MV>>> = rules.iter().map(|r| (r.name.clone(), probe_rows(&before, &r.probe))).collect();
            if saturating && !matches!(policy, Policy::All) {
                // keep the policy while it is fair; force choose-all late so that the phase terminates
                if step >= nsteps + 25 || matches!(policy, Policy::FirstN(_) | Policy::NoneThenAll(_)) && step >= nsteps + 12 {
                    *force_all.lock().unwrap() = true;
                }
            }
            calls.lock().unwrap().clear();
            log.push(format!("; step {step}: step_rules_with_scheduler {rs}"));
            let res = std::panic::catch_unwind(std::panic::AssertUnwindSafe(|| eg.step_rules_with_scheduler(sid, &rs)));
            rep.count("steps", 1);
            let this: Vec<Call> = calls.lock().unwrap().clone();
            let step_failed = !matches!(res, Ok(Ok(_)));
            if let Err(p) = &res {
                let _ = p;
                rep.inconclusive(&format!("panic escaped step_rules_with_scheduler (C09's business) @ {}; rules: {}", run::last_panic_location(), rules.iter().map(|r| r.text.clone()).collect::<Vec<_>>().join(" ;; ")));
                break;
            }
            // (e) invariants after every step, failing or not
            let inv = crate::c04::invariants(&eg);
            if !inv.is_empty() {
                violation(&mut rep, &log, &format!("step {step} ({}): database not canonical after the step: {}", if step_failed { "failed" } else { "ok" }, inv.join("; ")));
                bad = true;
                break;
            }
            if step_failed {
                rep.count("failing_steps", 1);
                if !faulty {
                    rep.inconclusive(&format!("step failed unexpectedly: {:?}", res.map(|r| r.map(|_| ()).map_err(|e| e.to_string()))));
                    break;
                }
                // rulesets and schedulers must still be there
                let o = run::run(&mut eg.clone(), &format!("(run {rs} 1)"));
                if let Outcome::Err(e) = &o {
                    if e.contains("no such ruleset") || e.contains("Unknown ruleset") || e.contains("not found") {
                        violation(&mut rep, &log, &format!("after a failing scheduler step the ruleset is gone: {e}"));
                        bad = true;
                    }
                }
                let again = eg.step_rules_with_scheduler(sid, "no-such-ruleset");
                if let Err(e) = again {
                    if !e.to_string().contains("no such ruleset") {
                        violation(&mut rep, &log, &format!("after a failing scheduler step an unknown-ruleset step reports: {e}"));
                        bad = true;
                    }
                }
                rep.count("failing_steps_followed_up", 1);
                break;
            }
            let after = Dump::take(&eg, false);
            let mut any_offered = false;
            for r in &rules {
                let Some(call) = this.iter().find(|c| c.rule == r.name) else {
                    violation(&mut rep, &log, &format!("step {step}: rule {} was not presented to the scheduler", r.name));
                    bad = true;
                    continue;
                };
                rep.count("filter_calls", 1);
                rep.count("matches_offered", call.offered.len() as u64);
                any_offered |= !call.offered.is_empty();
                // offered values are canonical at offer time = `before` (no write in between)
                let offered_now: Vec<Vec<MV>> = call.offered.iter().map(|t| canon_tuple(&eg, &sig, &r.head_vars, t)).collect();
                // The step itself may have merged classes; re-derive the pre-step view from the raw
                // values through the pre-step dump is not possible, so (a)-(c) compare under the
                // post-step equalities consistently on both sides.
                let canon_post = |t: &Vec<MV>| -> Vec<MV> { t.clone() };
                let _ = canon_post;
                let res_post: Vec<Vec<MV>> = residual.get(&r.name).map(|v| v.iter().map(|t| canon_tuple(&eg, &sig, &r.head_vars, t)).collect()).unwrap_or_default();
                let _ = &residual_now;
                // (a) conservation
                let om = multiset(&offered_now);
                let rm = multiset(&res_post);
                for (t, k) in &rm {
                    if om.get(t).copied().unwrap_or(0) < *k {
                        violation(&mut rep, &log, &format!("step {step}, rule {}: a match that was offered earlier and not chosen is no longer offered (tuple {:?} x{k}, now offered x{}): matches must stay available until chosen", r.name, t, om.get(t).copied().unwrap_or(0)));
                        bad = true;
                        break;
                    }
                }
                rep.count("residual_matches_tracked", res_post.len() as u64);
                // fresh = offered - residual (multiset)
                let mut fresh: Vec<Vec<MV>> = vec![];
                let mut rm2 = rm.clone();
                for t in &offered_now {
                    match rm2.get_mut(t) {
                        Some(k) if *k > 0 => *k -= 1,
                        _ => fresh.push(t.clone()),
                    }
                }
                // oracle tuples are canonical w.r.t. `before`; bring them to post-step ids through any
                // raw value is impossible, so use the class map before->after obtained from the dumps
                let map = class_map(&before, &eg);
                let orc: BTreeSet<Vec<MV>> = oracle[&r.name].iter().map(|t| t.iter().map(|v| map_mv(&map, *v)).collect()).collect();
                // (c) every fresh offer is a real match on the pre-step database
                if !r.head_vars.is_empty() {
                    for t in &fresh {
                        if !orc.contains(t) {
                            violation(&mut rep, &log, &format!("step {step}, rule {} (body {}): the scheduler was offered {:?}, which is not a match of the body on the database as it stood before the step (subsumed rows excluded)", r.name, r.body.iter().map(|f| f.to_string()).collect::<Vec<_>>().join(" "), t));
                            bad = true;
                            break;
                        }
                    }
                } else if !fresh.is_empty() && orc.is_empty() {
                    violation(&mut rep, &log, &format!("step {step}, rule {}: a variable-free head was offered {} matches but the body has none", r.name, fresh.len()));
                    bad = true;
                }
                // (b) completeness, when the query ran in this step
                let e = ever.entry(r.name.clone()).or_default();
                e.extend(call.offered.iter().cloned());
                if seek_next[&r.name] {
                    let ever_now: BTreeSet<Vec<MV>> = e.iter().map(|t| canon_tuple(&eg, &sig, &r.head_vars, t)).collect();
                    rep.count("completeness_checks", 1);
                    if !r.head_vars.is_empty() {
                        for t in &orc {
                            if !ever_now.contains(t) {
                                violation(&mut rep, &log, &format!("step {step}, rule {} (body {}): substitution {:?} satisfies the body on the pre-step database but has never been offered to the scheduler", r.name, r.body.iter().map(|f| f.to_string()).collect::<Vec<_>>().join(" "), t));
                                bad = true;
                                break;
                            }
                        }
                    } else if !orc.is_empty() && e.is_empty() {
                        violation(&mut rep, &log, &format!("step {step}, rule {}: the body matches but a variable-free head was never offered anything", r.name));
                        bad = true;
                    }
                }
                seek_next.insert(r.name.clone(), call.seek);
                // (d) probe = probe_before ∪ chosen, under post-step ids
                let chosen_raw: Vec<Vec<Value>> = if call.all { call.offered.clone() } else { call.chosen.iter().map(|i| call.offered[*i].clone()).collect() };
                let mut want: BTreeSet<Vec<MV>> = probes_before[&r.name].iter().map(|t| t.iter().map(|v| map_mv(&map, *v)).collect()).collect();
                for t in &chosen_raw {
                    want.insert(canon_tuple(&eg, &sig, &r.head_vars, t));
                }
                let got = probe_rows(&after, &r.probe);
                rep.count("probe_checks", 1);
                if got != want {
                    let missing: Vec<&Vec<MV>> = want.difference(&got).take(3).collect();
                    let extra: Vec<&Vec<MV>> = got.difference(&want).take(3).collect();
                    violation(&mut rep, &log, &format!("step {step}, rule {}: actions did not run for precisely the chosen matches under the ids that hold after the step: probe {} misses {:?} and has unexpected {:?} ({} chosen)", r.name, r.probe, missing, extra, chosen_raw.len()));
                    bad = true;
                }
                // new residual
                let chosen_idx: BTreeSet<usize> = if call.all { (0..call.offered.len()).collect() } else { call.chosen.iter().copied().collect() };
                let newres: Vec<Vec<Value>> = call.offered.iter().enumerate().filter(|(i, _)| !chosen_idx.contains(i)).map(|(_, t)| t.clone()).collect();
                if !res_post.is_empty() && !chosen_raw.is_empty() {
                    held_back_applied = true;
                }
                residual.insert(r.name.clone(), newres);
            }
            if bad {
                break;
            }
            // (f) choose-all is indistinguishable from built-in stepping
            if matches!(policy, Policy::All) && !with_fault {
                let o = run::run(&mut sib, &format!("(run {rs} 1)"));
                if o.is_ok() {
                    let d1 = crate::c03::canon(&eg);
                    let d2 = crate::c03::canon(&sib);
                    rep.count("choose_all_vs_builtin", 1);
                    if d1 != d2 {
                        violation(&mut rep, &log, &format!("step {step}: choose-all scheduler and built-in (run {rs} 1) diverge: {}", crate::c03::first_diff(&d1, &d2)));
                        bad = true;
                        break;
                    }
                }
            }
            if saturating && !any_offered {
                // quiescent: (g) compare with built-in saturation from the same start
                break;
            }
        }
        // Bodies that read a lattice function are not monotone in time (the value a match saw may
        // be merged away later), so the order of writes and firings legitimately matters there.
        let reads_func = rules.iter().any(|r| {
            let q = Model::new(&sig).compile_body(&r.body);
            q.atoms.iter().any(|at| sig.funcs.iter().any(|f| f.name == at.table))
        });
        if reads_func {
            rep.count("programs_reading_functions_no_saturation_comparison", 1);
        }
        if !bad && !with_subsume && !fault_done && !reads_func && !matches!(policy, Policy::NeverReseek) {
            // (g) drive to quiescence happened above; compare with built-in saturation of a clone
            // taken from the *current* scheduler-side state's inputs: rebuild the program on a
            // fresh e-graph and saturate with the built-in schedule.
            let mut fresh = EGraph::new(a.threads);
            let mut okk = true;
            for l in &log {
                if l.starts_with(';') {
                    continue;
                }
                if !run::run(&mut fresh, l).is_ok() {
                    okk = false;
                    break;
                }
            }
            if okk {
                let o = run::run(&mut fresh, &format!("(run-schedule (saturate (run {rs})))"));
                // bring the scheduler side to quiescence completely
                *force_all.lock().unwrap() = true;
                let mut quiet = false;
                for _ in 0..60 {
                    calls.lock().unwrap().clear();
                    match eg.step_rules_with_scheduler(sid, &rs) {
                        Ok(r) => {
                            let offered: usize = calls.lock().unwrap().iter().map(|c| c.offered.len()).sum();
                            if offered == 0 && !r.updated {
                                quiet = true;
                                break;
                            }
                        }
                        Err(_) => break,
                    }
                }
                if o.is_ok() && quiet {
                    let d1 = crate::c03::canon(&eg);
                    let d2 = crate::c03::canon(&fresh);
                    rep.count("saturation_comparisons", 1);
                    if d1 != d2 {
                        violation(&mut rep, &log, &format!("fair scheduler ({policy:?}) and built-in saturation reach different databases: {}", crate::c03::first_diff(&d1, &d2)));
                    }
                } else {
                    rep.count("saturation_not_reached", 1);
                }
            }
        }
        if held_back_applied {
            rep.count("programs_with_delayed_application", 1);
            rep.nontrivial(&format!("{policy:?}|{}", crate::c03::canon(&eg)));
        }
        if case < 2 {
            rep.sample(json!({"policy": format!("{policy:?}"), "program": log}));
        }
    }
    rep
}

/// canonical id before the step -> canonical id after the step
fn class_map(before: &Dump, eg: &EGraph) -> HashMap<usize, usize> {
    let mut m = HashMap::new();
    fn walk(v: &V, eg: &EGraph, m: &mut HashMap<usize, usize>) {
        match v {
            V::Id(s, _, c) => {
                if !m.contains_key(&(*c as usize)) {
                    if let Some(sort) = eg.get_sort_by_name(s) {
                        if let V::Id(_, _, now) = dump::render_value(eg, sort, Value::new(*c)) {
                            m.insert(*c as usize, now as usize);
                        }
                    }
                }
            }
            V::Cont(_, _, items) => items.iter().for_each(|x| walk(x, eg, m)),
            V::Base(_) => {}
        }
    }
    for t in &before.tables {
        for r in &t.rows {
            for v in &r.vals {
                walk(v, eg, &mut m);
            }
        }
    }
    m
}

fn map_mv(m: &HashMap<usize, usize>, v: MV) -> MV {
    match v {
        MV::Id(i) => MV::Id(*m.get(&i).unwrap_or(&i)),
        o => o,
    }
}
