//! C11 — term and proof encodings preserve observable behaviour.
//!
//! Oracle: translation-validation style differential. Each generated program
//! the encoder declares supported is executed command by command on a plain,
//! a term-encoding and a proofs e-graph; per command the Ok/Err outcome and the
//! projection upstream declares stable (`snapshot_stable_under_proof_encoding`:
//! check outcomes, sizes, extraction costs) must agree. Then the desugared
//! encoded program is printed, re-parsed and run on a plain engine.
use crate::dump;
use crate::out::Report;
use crate::pgen::{self, GenCfg};
use crate::rng::Rng;
use crate::run::{self, Outcome};
use crate::Args;
use egglog::{CommandOutput, EGraph};
use serde_json::json;

fn stable(eg: &mut EGraph, text: &str) -> Outcome {
    match run::run_raw(eg, text) {
        Ok(outs) => Outcome::Ok(vec![CommandOutput::snapshot_stable_under_proof_encoding(&outs)]),
        Err(Outcome::Err(e)) => {
            // error texts legitimately differ between encodings; keep only the class
            let class = if e.contains("Check failed") { "check-failed" } else { "error" };
            Outcome::Err(class.into())
        }
        Err(o) => o,
    }
}

pub fn supported(text: &str) -> Result<bool, String> {
    let mut eg = EGraph::default();
    let r = std::panic::catch_unwind(std::panic::AssertUnwindSafe(|| eg.resolve_program(None, text)));
    match r {
        Ok(Ok(cmds)) => Ok(egglog::program_supports_proofs(&cmds, eg.type_info())),
        Ok(Err(e)) => Err(e.to_string()),
        Err(p) => Err(format!("panic: {}", run::panic_message(p))),
    }
}

/// Run `texts` command by command in the three modes; first disagreement, if any.
pub fn compare_modes(texts: &[String], threads: usize) -> Option<String> {
    let mut plain = EGraph::new(threads);
    let mut term = EGraph::new_with_term_encoding().with_num_threads(threads);
    let mut proofs = EGraph::new_with_proofs().with_num_threads(threads);
    for t in texts {
        let o0 = stable(&mut plain, t);
        let o1 = stable(&mut term, t);
        let o2 = stable(&mut proofs, t);
        if o0 != o1 || o0 != o2 {
            return Some(format!("command `{t}`: plain={} term-encoding={} proofs={}", o0.short(), o1.short(), o2.short()));
        }
    }
    None
}

/// Known-finding witnesses: fixed programs replayed on every run; a divergence is
/// reported under the stable signature `C11:witness:<file stem>`.
fn witness_pass(a: &Args, rep: &mut Report) {
    let Some(dir) = a.get("witness-dir") else { return };
    let Ok(rd) = std::fs::read_dir(dir) else { return };
    let mut files: Vec<_> = rd.filter_map(|e| e.ok()).map(|e| e.path()).filter(|p| p.extension().map(|x| x == "egg").unwrap_or(false)).collect();
    files.sort();
    for f in files {
        let text = std::fs::read_to_string(&f).unwrap();
        let cmds = crate::exec::split_toplevel(&text);
        rep.count("witness_programs", 1);
        if let Some(d) = compare_modes(&cmds, a.threads) {
            let stem = f.file_stem().unwrap().to_string_lossy().to_string();
            rep.violation(&format!("C11:witness:{stem}"), &d, &text);
        }
    }
}

pub fn run(a: &Args) -> Report {
    let mut rep = Report::new(
        "C11",
        "generated programs in the fragment accepted by program_supports_proofs (constructors, relations, lattice functions, rules, rewrites, globals, push/pop, optional subsume/delete/containers) executed on plain / term-encoding / proofs e-graphs command by command, comparing Ok/Err and the upstream-stable projection (check outcomes, print-size, extraction cost); plus the printed desugared encoded program re-run on a plain engine. Non-trivial = program where at least one rule run changed a table size; distinct by final print-size output.",
    );
    let n = a.cases(150, 6000);
    let root = Rng::new(a.seed);
    witness_pass(a, &mut rep);
    for case in 0..n {
        let mut rng = root.fork(case);
        let subsume = rng.chance(1, 5);
        let cfg = GenCfg {
            // subsume + container rebuild is known finding F-C11-subsume-container-rebuild
            containers: !subsume && rng.chance(1, 5),
            subsume,
            delete: false, // delete diverges in several known ways (F-C11-delete-*); witnesses are replayed separately
            pushpop: rng.chance(1, 5),
            extracts: true,
            checks: !subsume, // upstream: check on facts resting on subsumed rows is not preserved
            prints: false,
            n_cmds: (8, 20),
            subsume_existing_only: true,
            one_container_per_kind: true,
            delete_nonminting_only: true,
            ..Default::default()
        };
        let (_sig, cmds) = pgen::gen_history(&mut rng, &cfg);
        let mut texts: Vec<String> = cmds.iter().map(|c| c.to_string()).collect();
        texts.push("(print-size)".into());
        // programs must be supported as a whole (checked on the commands that typecheck)
        let mut plain = EGraph::new(a.threads);
        let mut term = EGraph::new_with_term_encoding().with_num_threads(a.threads);
        let mut proofs = EGraph::new_with_proofs().with_num_threads(a.threads);
        let whole = texts.join("\n");
        // pre-filter: keep only commands that succeed on a scratch plain e-graph so that
        // the whole-program support check and the desugar-rerun stage see a valid program
        let mut scratch = EGraph::new(a.threads);
        let mut ok_cmds: Vec<String> = vec![];
        for t in &texts {
            if run::run(&mut scratch, t).is_ok() {
                ok_cmds.push(t.clone());
            }
        }
        let ok_prog = ok_cmds.join("\n");
        rep.evaluations += 1;
        match supported(&ok_prog) {
            Ok(true) => {}
            Ok(false) => {
                rep.count("programs_not_supported_by_encoder", 1);
                continue;
            }
            Err(e) => {
                rep.inconclusive(&format!("support check failed: {e}"));
                continue;
            }
        }
        rep.count("programs_supported", 1);
        let mut bad = false;
        let mut sizes_changed = false;
        let mut last_size = String::new();
        let mut log = vec![];
        for t in &texts {
            let o0 = stable(&mut plain, t);
            let o1 = stable(&mut term, t);
            let o2 = stable(&mut proofs, t);
            log.push(t.clone());
            rep.count("commands_compared", 1);
            if let Outcome::Panic(p) = &o0 {
                rep.inconclusive(&format!("plain engine panicked (C09): {p}"));
                bad = true;
                break;
            }
            // a command rejected by the plain engine before execution may be rejected with a
            // different message by the encodings; only the Ok/Err/check-failed class is compared
            if o0 != o1 || o0 != o2 {
                let replay = log.join("\n");
                rep.violation(
                    &format!("C11:{}", dump::fnv(&replay)),
                    &format!("command `{t}`: plain={} term-encoding={} proofs={}", o0.short(), o1.short(), o2.short()),
                    &replay,
                );
                rep.count("disagreements", 1);
                bad = true;
                break;
            }
            if t.starts_with("(run") {
                let sz = stable(&mut plain, "(print-size)").short();
                if !last_size.is_empty() && sz != last_size {
                    sizes_changed = true;
                }
                last_size = sz;
                // keep the three engines in step (print-size has no effect)
                let _ = stable(&mut term, "(print-size)");
                let _ = stable(&mut proofs, "(print-size)");
            } else if last_size.is_empty() {
                last_size = "-".into();
            }
        }
        if bad {
            continue;
        }
        if sizes_changed {
            rep.count("programs_with_rule_progress", 1);
        }
        let final_sizes = stable(&mut plain, "(print-size)").short();
        rep.nontrivial(&final_sizes);
        // desugar -> print -> re-parse -> run on a plain engine
        for (mode, mut enc) in [("term", EGraph::new_with_term_encoding()), ("proofs", EGraph::new_with_proofs())] {
            let r = std::panic::catch_unwind(std::panic::AssertUnwindSafe(|| enc.resolve_program(None, &ok_prog)));
            let resolved = match r {
                Ok(Ok(c)) => c.iter().map(|c| c.to_string()).collect::<Vec<_>>().join("\n"),
                Ok(Err(e)) => {
                    rep.violation(
                        &format!("C11:resolve:{}", dump::fnv(&ok_prog)),
                        &format!("{mode}: resolve_program rejected a program the plain engine runs and the encoder declares supported: {e}"),
                        &ok_prog,
                    );
                    continue;
                }
                Err(p) => {
                    rep.violation(&format!("C11:resolve-panic:{}", dump::fnv(&ok_prog)), &format!("{mode}: resolve_program panicked: {}", run::panic_message(p)), &ok_prog);
                    continue;
                }
            };
            let mut fresh = EGraph::new(a.threads);
            fresh.ensure_no_reserved_symbols(false);
            let mut reference = EGraph::new(a.threads);
            let want = stable(&mut reference, &ok_prog);
            let got = stable(&mut fresh, &resolved);
            rep.count("desugared_reruns", 1);
            if want != got {
                rep.violation(
                    &format!("C11:rerun:{}", dump::fnv(&ok_prog)),
                    &format!("{mode}: desugared encoded program re-run on a plain engine: expected {} got {}", want.short(), got.short()),
                    &format!("{ok_prog}\n; ---- desugared ----\n{resolved}"),
                );
            }
        }
        if case < 2 {
            rep.sample(json!({"program": texts, "whole": whole.len()}));
        }
    }
    rep
}
