//! C01 — equality is exactly the congruence closure of what was asserted.
//!
//! Oracle: reference model (model.rs). The engine and the model receive the same
//! generated history; after EVERY command
//!   * the engine's canonical dump must equal the model's (same tables, same rows, same
//!     partition of terms into classes, up to renaming of ids),
//!   * every `check` outcome must agree,
//!   * pairs of ground terms over the signature (depth <= 2, quick; 3 thorough) are asked
//!     through `(check (= t1 t2))` on a clone and compared with the model's closure — the
//!     negative answers included.
//! Regimes: rule-free histories (the asserted unions are exactly the harness' commands),
//! histories with rules / rewrites / schedules, and threshold-crossing databases
//! (> 10 000 rows per table with a handful of unions: the incremental rebuild path).
use crate::dump::{self, Dump};
use crate::model::{self, Model, Unsupported};
use crate::out::Report;
use crate::pgen::{self, Act, Cmd, Ctor, Fact, GenCfg, Sig, T, Ty};
use crate::rng::Rng;
use crate::run::{self, Outcome};
use crate::Args;
use egglog::EGraph;
use serde_json::json;

pub fn engine_canon(eg: &EGraph) -> String {
    dump::register_unordered_from(eg);
    Dump::take(eg, false).canonical()
}

fn model_check_eq(m: &Model, a: &T, b: &T) -> bool {
    let e = model::Env::new();
    match (m.eval_lookup(a, &e), m.eval_lookup(b, &e)) {
        (Some(x), Some(y)) => x == y,
        _ => false,
    }
}

/// Big template: one table above the incremental-rebuild threshold, few unions.
fn big_case(rng: &mut Rng) -> (Sig, Vec<Cmd>, usize) {
    let sig = Sig {
        sorts: vec!["S0".into()],
        conts: vec![],
        ctors: vec![
            Ctor { name: "Z".into(), args: vec![Ty::I64], out: 0, cost: None, unextractable: false },
            Ctor { name: "F".into(), args: vec![Ty::Eq(0)], out: 0, cost: None, unextractable: false },
            Ctor { name: "G".into(), args: vec![Ty::Eq(0), Ty::Eq(0)], out: 0, cost: None, unextractable: false },
        ],
        rels: vec![pgen::Rel { name: "R".into(), args: vec![Ty::Eq(0)] }],
        funcs: vec![pgen::Func { name: "f".into(), args: vec![Ty::Eq(0)], merge: pgen::Merge::Min }],
        rulesets: vec!["rs0".into()],
    };
    let n = 10300 + rng.below(600);
    let z = |i: usize| T::App("Z".into(), vec![T::Int(i as i64)]);
    let mut load = vec![];
    for i in 0..n {
        load.push(Cmd::Act(Act::Expr(T::App("F".into(), vec![z(i)]))));
        if i % 3 == 0 {
            load.push(Cmd::Act(Act::Expr(T::App("G".into(), vec![z(i), z((i * 7 + 1) % n)]))));
        }
        if i % 5 == 0 {
            load.push(Cmd::Act(Act::Set("f".into(), vec![z(i)], T::Int((i % 11) as i64))));
        }
    }
    // chains through F so that one union needs several congruence passes
    for i in 0..20 {
        let mut t = z(i);
        for _ in 0..(2 + i % 4) {
            t = T::App("F".into(), vec![t]);
        }
        load.push(Cmd::Act(Act::Expr(t)));
    }
    let mut cmds = sig.decls(rng, false);
    let ndecl = cmds.len();
    cmds.extend(load);
    let bulk = cmds.len();
    let _ = ndecl;
    for _ in 0..(3 + rng.below(6)) {
        let (a, b) = if rng.chance(1, 2) { (rng.below(24), rng.below(24)) } else { (rng.below(n), rng.below(n)) };
        cmds.push(Cmd::Act(Act::Union(z(a), z(b))));
        if rng.chance(1, 3) {
            cmds.push(Cmd::Act(Act::Union(T::App("F".into(), vec![z(rng.below(n))]), z(rng.below(n)))));
        }
    }
    (sig, cmds, bulk)
}

pub fn run(a: &Args) -> Report {
    let mut rep = Report::new(
        "C01",
        "generated monotone histories (insertions, lets, unions, lattice sets, relation facts, optional rules/rewrites/schedules, congruence-chain templates) run on the engine and on a naive reference model (explicit partition + rebuild fixpoint + nested-loop matching); after every command the canonical dumps must be equal, check outcomes must agree, and sampled pairs of ground terms (depth<=2/3) are asked through (check (= t1 t2)) on a clone, negative answers included. Big cases: >10 000-row tables with a few unions (incremental rebuild). Non-trivial = history in which some union merged two classes holding applications (congruence had work to do); distinct by final canonical dump.",
    );
    let n = a.cases(300, 12000);
    let big_every = a.get("big-every").and_then(|s| s.parse::<u64>().ok()).unwrap_or(if a.quick() { 150 } else { 400 });
    let depth = if a.quick() { 2 } else { 3 };
    let pairs_per_cmd = if a.quick() { 12 } else { 30 };
    let root = Rng::new(a.seed);
    for case in 0..n {
        let mut rng = root.fork(case);
        let big = big_every > 0 && case % big_every == big_every - 1;
        let with_rules = !big && rng.chance(3, 5);
        let (sig, cmds, bulk) = if big {
            big_case(&mut rng)
        } else {
            let cfg = GenCfg {
                rules: with_rules,
                subsume: with_rules && rng.chance(1, 4),
                n_cmds: (10, 30),
                ..Default::default()
            };
            let (s, c) = pgen::gen_history(&mut rng, &cfg);
            (s, c, 0)
        };
        let mut eg = EGraph::new(a.threads);
        let mut m = Model::new(&sig);
        let mut log: Vec<String> = vec![];
        let mut stop = false;
        let mut classes_merged = false;
        // term pools for pairwise questions
        let pools: Vec<Vec<T>> = if big { vec![] } else { (0..sig.sorts.len()).map(|s| model::ground_terms(&sig, s, depth, 40)).collect() };
        if big {
            // bulk load in one engine call; the model interprets the same commands
            let text = pgen::program_text(&cmds[..bulk]);
            match run::run(&mut eg, &text) {
                Outcome::Ok(_) => {}
                o => {
                    rep.inconclusive(&format!("big-case bulk load failed: {}", o.short()));
                    continue;
                }
            }
            for c in &cmds[..bulk] {
                if let Cmd::Act(act) = c {
                    let mut env = model::Env::new();
                    if m.act(act, &mut env).is_err() {
                        stop = true;
                    }
                }
            }
            m.rebuild();
            log.push(format!("; bulk load of {bulk} commands"));
            rep.count("big_cases", 1);
        }
        for (ci, c) in cmds.iter().enumerate().skip(bulk) {
            if stop {
                break;
            }
            let text = c.to_string();
            if matches!(c, Cmd::Act(Act::Expr(T::Var(_)))) {
                // a bare global is not a command
                continue;
            }
            if run::skip_run_on_large_db(&eg, &text) {
                rep.count("runs_skipped_large_db", 1);
                continue;
            }
            let rows_before = eg.num_tuples();
            let o = run::run(&mut eg, &text);
            log.push(text.clone());
            let nrules = m.rules.len();
            let expect = match m.command(c, 50000) {
                Ok(x) => x,
                Err(Unsupported::TooBig) => {
                    rep.count("cases_stopped_model_too_big", 1);
                    break;
                }
                Err(e) => {
                    rep.count("cases_stopped_unsupported", 1);
                    rep.notes.push(format!("model does not interpret: {e:?}"));
                    break;
                }
            };
            rep.count("commands", 1);
            // outcome
            match (&o, expect) {
                (Outcome::Panic(p), _) => {
                    rep.inconclusive(&format!("panic in C01 case (C09's business): {p}"));
                    break;
                }
                (Outcome::Ok(_), Some(false)) | (Outcome::Err(_), Some(true)) => {
                    let replay = log.join("\n");
                    let engine_reports_fact = matches!(c, Cmd::Check(_)) == o.is_ok();
                    let what = if engine_reports_fact { "an equality/fact the closure does not justify was reported" } else { "an equality/fact that follows was not reported" };
                    rep.violation(
                        &format!("C01:check:{}", dump::fnv(&replay)),
                        &format!("command #{ci} `{text}`: engine says {}, reference closure says the opposite ({what})", o.short()),
                        &replay,
                    );
                    stop = true;
                    continue;
                }
                (Outcome::Err(_), None) if matches!(c, Cmd::Rule { .. } | Cmd::Rewrite { .. }) => {
                    // e.g. "Rule already exists": rejected declarations have no effect
                    m.rules.truncate(nrules);
                    rep.count("rule_declarations_rejected", 1);
                    continue;
                }
                (Outcome::Err(e), None) => {
                    rep.inconclusive(&format!("generated command failed on the engine: `{text}` -> {e}"));
                    break;
                }
                _ => {}
            }
            if expect.is_some() {
                rep.count("check_commands_compared", 1);
            }
            if eg.num_tuples() > 3000 && !big {
                rep.count("histories_truncated_large_db", 1);
                break;
            }
            if matches!(c, Cmd::Decl(_)) {
                continue;
            }
            // dump comparison
            let bad = m.self_check();
            if !bad.is_empty() {
                rep.inconclusive(&format!("model self-check failed: {}", bad.join("; ")));
                break;
            }
            let de = engine_canon(&eg);
            let dm = m.to_dump().canonical();
            rep.count("dump_comparisons", 1);
            if de != dm {
                let replay = log.join("\n");
                rep.violation(
                    &format!("C01:dump:{}", dump::fnv(&replay)),
                    &format!("after command #{ci} `{text}` the database differs from the congruence closure of the history (first = engine, second = reference): {}", crate::c03::first_diff(&de, &dm)),
                    &replay,
                );
                break;
            }
            if matches!(c, Cmd::Act(Act::Union(..)) | Cmd::Run(..) | Cmd::RunSchedule(..)) && eg.num_tuples() < rows_before {
                // rows collapsed: congruence merged applications
                classes_merged = true;
            }
            // pairwise questions on a clone
            if !big {
                let mut q = eg.clone();
                for _ in 0..pairs_per_cmd {
                    let s = rng.below(sig.sorts.len());
                    if pools[s].len() < 2 {
                        continue;
                    }
                    let t1 = rng.pick(&pools[s]).clone();
                    let t2 = rng.pick(&pools[s]).clone();
                    let want = model_check_eq(&m, &t1, &t2);
                    let got = run::check(&mut q, &Fact::Eq(t1.clone(), t2.clone()).to_string());
                    rep.count("pair_questions", 1);
                    if want {
                        rep.count("pair_questions_equal", 1);
                    }
                    match got {
                        Ok(g) if g == want => {}
                        Ok(g) => {
                            let replay = format!("{}\n(check (= {t1} {t2}))", log.join("\n"));
                            rep.violation(
                                &format!("C01:pair:{}", dump::fnv(&replay)),
                                &format!("after command #{ci}: (check (= {t1} {t2})) is {g} on the engine but the congruence closure of the history says {want}"),
                                &replay,
                            );
                            stop = true;
                            break;
                        }
                        Err(e) => {
                            rep.inconclusive(&format!("pair question failed: {e}"));
                            stop = true;
                            break;
                        }
                    }
                }
            } else {
                // big case: probe the chains and a few random pairs directly
                let mut q = eg.clone();
                let z = |i: usize| T::App("Z".into(), vec![T::Int(i as i64)]);
                for _ in 0..40 {
                    let (i, j) = (rng.below(24), rng.below(24));
                    let k = rng.below(4);
                    let wrap = |mut t: T| {
                        for _ in 0..k {
                            t = T::App("F".into(), vec![t]);
                        }
                        t
                    };
                    let (t1, t2) = (wrap(z(i)), wrap(z(j)));
                    let want = model_check_eq(&m, &t1, &t2);
                    let got = run::check(&mut q, &Fact::Eq(t1.clone(), t2.clone()).to_string());
                    rep.count("pair_questions", 1);
                    if want {
                        rep.count("pair_questions_equal", 1);
                    }
                    if let Ok(g) = got {
                        if g != want {
                            let replay = format!("; after a bulk load of F/G/Z rows, n>10000\n{}\n(check (= {t1} {t2}))", log.join("\n"));
                            rep.violation(
                                &format!("C01:bigpair:{}", dump::fnv(&replay)),
                                &format!("big database: (check (= {t1} {t2})) is {g} on the engine, closure says {want}"),
                                &pgen::program_text(&cmds[..=ci]),
                            );
                            stop = true;
                            break;
                        }
                    }
                }
            }
        }
        rep.evaluations += 1;
        if with_rules {
            rep.count("histories_with_rules", 1);
        } else if !big {
            rep.count("histories_rule_free", 1);
        }
        if classes_merged {
            rep.count("histories_congruence_worked", 1);
            rep.nontrivial(&m.to_dump().canonical());
        }
        rep.count("model_unions_asserted", m.unions_asserted);
        rep.count("model_rule_matches_applied", m.matches_applied);
        if case < 2 {
            rep.sample(json!({"history": log}));
        }
    }
    rep
}
