//! Seeded generators of egglog signatures, terms, rules and command histories.
//! Everything is a small structured AST with a printer, so that monitors can
//! both feed text to the engine and interpret the same program in a model.
use crate::rng::Rng;
use std::fmt;

#[derive(Clone, Debug, PartialEq, Eq, Hash, PartialOrd, Ord)]
pub enum Ty {
    Eq(usize),
    I64,
    Cont(usize),
}

#[derive(Clone, Copy, Debug, PartialEq, Eq)]
pub enum CKind {
    Vec,
    Set,
    MultiSet,
    Map,
    Pair,
}

#[derive(Clone, Debug)]
pub struct ContSort {
    pub name: String,
    pub kind: CKind,
    pub a: Ty,
    pub b: Option<Ty>,
}

#[derive(Clone, Debug)]
pub struct Ctor {
    pub name: String,
    pub args: Vec<Ty>,
    pub out: usize,
    pub cost: Option<u64>,
    pub unextractable: bool,
}

#[derive(Clone, Debug)]
pub struct Rel {
    pub name: String,
    pub args: Vec<Ty>,
}

#[derive(Clone, Copy, Debug, PartialEq, Eq)]
pub enum Merge {
    Min,
    Max,
    NoMerge,
}

#[derive(Clone, Debug)]
pub struct Func {
    pub name: String,
    pub args: Vec<Ty>,
    pub merge: Merge,
}

#[derive(Clone, Debug, Default)]
pub struct Sig {
    pub sorts: Vec<String>,
    pub conts: Vec<ContSort>,
    pub ctors: Vec<Ctor>,
    pub rels: Vec<Rel>,
    pub funcs: Vec<Func>,
    pub rulesets: Vec<String>,
}

#[derive(Clone, Debug, PartialEq, Eq, Hash, PartialOrd, Ord)]
pub enum T {
    App(String, Vec<T>),
    Int(i64),
    Var(String),
    /// primitive application (container constructors, arithmetic, guards)
    Prim(String, Vec<T>),
}

impl fmt::Display for T {
    fn fmt(&self, f: &mut fmt::Formatter<'_>) -> fmt::Result {
        match self {
            T::App(n, a) | T::Prim(n, a) => {
                write!(f, "({n}")?;
                for x in a {
                    write!(f, " {x}")?;
                }
                write!(f, ")")
            }
            T::Int(i) => write!(f, "{i}"),
            T::Var(v) => write!(f, "{v}"),
        }
    }
}

impl T {
    pub fn vars(&self, out: &mut Vec<String>) {
        match self {
            T::App(_, a) | T::Prim(_, a) => a.iter().for_each(|x| x.vars(out)),
            T::Var(v) => {
                if !out.contains(v) {
                    out.push(v.clone())
                }
            }
            T::Int(_) => {}
        }
    }
    pub fn depth(&self) -> usize {
        match self {
            T::App(_, a) | T::Prim(_, a) => 1 + a.iter().map(|x| x.depth()).max().unwrap_or(0),
            _ => 0,
        }
    }
}

#[derive(Clone, Debug)]
pub enum Fact {
    Eq(T, T),
    Atom(T),
}

impl fmt::Display for Fact {
    fn fmt(&self, f: &mut fmt::Formatter<'_>) -> fmt::Result {
        match self {
            Fact::Eq(a, b) => write!(f, "(= {a} {b})"),
            Fact::Atom(a) => write!(f, "{a}"),
        }
    }
}

#[derive(Clone, Debug)]
pub enum Act {
    Union(T, T),
    Expr(T),
    Set(String, Vec<T>, T),
    Subsume(T),
    Delete(T),
    Let(String, T),
    Panic(String),
}

impl fmt::Display for Act {
    fn fmt(&self, f: &mut fmt::Formatter<'_>) -> fmt::Result {
        match self {
            Act::Union(a, b) => write!(f, "(union {a} {b})"),
            Act::Expr(a) => write!(f, "{a}"),
            Act::Set(n, args, v) => {
                write!(f, "(set ({n}")?;
                for a in args {
                    write!(f, " {a}")?;
                }
                write!(f, ") {v})")
            }
            Act::Subsume(a) => write!(f, "(subsume {a})"),
            Act::Delete(a) => write!(f, "(delete {a})"),
            Act::Let(v, a) => write!(f, "(let {v} {a})"),
            Act::Panic(s) => write!(f, "(panic \"{s}\")"),
        }
    }
}

#[derive(Clone, Debug)]
pub enum Sched {
    Run(String, Option<Vec<Fact>>),
    Repeat(u32, Vec<Sched>),
    Saturate(Vec<Sched>),
    Seq(Vec<Sched>),
}

impl fmt::Display for Sched {
    fn fmt(&self, f: &mut fmt::Formatter<'_>) -> fmt::Result {
        match self {
            Sched::Run(r, None) => {
                if r.is_empty() {
                    write!(f, "(run)")
                } else {
                    write!(f, "(run {r})")
                }
            }
            Sched::Run(r, Some(facts)) => {
                write!(f, "(run {r} :until")?;
                for x in facts {
                    write!(f, " {x}")?;
                }
                write!(f, ")")
            }
            Sched::Repeat(n, s) => {
                write!(f, "(repeat {n}")?;
                for x in s {
                    write!(f, " {x}")?;
                }
                write!(f, ")")
            }
            Sched::Saturate(s) => {
                write!(f, "(saturate")?;
                for x in s {
                    write!(f, " {x}")?;
                }
                write!(f, ")")
            }
            Sched::Seq(s) => {
                write!(f, "(seq")?;
                for x in s {
                    write!(f, " {x}")?;
                }
                write!(f, ")")
            }
        }
    }
}

#[derive(Clone, Debug, Default)]
pub struct RuleOpts {
    pub ruleset: String,
    pub name: Option<String>,
    pub naive: bool,
    pub no_decomp: bool,
}

#[derive(Clone, Debug)]
pub enum Cmd {
    /// raw declaration text
    Decl(String),
    Act(Act),
    Rule { body: Vec<Fact>, head: Vec<Act>, opts: RuleOpts },
    Rewrite { lhs: T, rhs: T, subsume: bool, when: Vec<Fact>, ruleset: String, bi: bool },
    Run(String, u32),
    RunSchedule(Sched),
    Check(Vec<Fact>),
    FailCheck(Vec<Fact>),
    Extract(T),
    Push,
    Pop,
    PrintSize(Option<String>),
    PrintFunction(String),
    Raw(String),
}

impl fmt::Display for Cmd {
    fn fmt(&self, f: &mut fmt::Formatter<'_>) -> fmt::Result {
        match self {
            Cmd::Decl(s) | Cmd::Raw(s) => write!(f, "{s}"),
            Cmd::Act(a) => write!(f, "{a}"),
            Cmd::Rule { body, head, opts } => {
                write!(f, "(rule (")?;
                for (i, b) in body.iter().enumerate() {
                    if i > 0 {
                        write!(f, " ")?;
                    }
                    write!(f, "{b}")?;
                }
                write!(f, ") (")?;
                for (i, h) in head.iter().enumerate() {
                    if i > 0 {
                        write!(f, " ")?;
                    }
                    write!(f, "{h}")?;
                }
                write!(f, ")")?;
                if !opts.ruleset.is_empty() {
                    write!(f, " :ruleset {}", opts.ruleset)?;
                }
                if let Some(n) = &opts.name {
                    write!(f, " :name \"{n}\"")?;
                }
                if opts.naive {
                    write!(f, " :naive")?;
                }
                if opts.no_decomp {
                    write!(f, " :no-decomp")?;
                }
                write!(f, ")")
            }
            Cmd::Rewrite { lhs, rhs, subsume, when, ruleset, bi } => {
                write!(f, "({} {lhs} {rhs}", if *bi { "birewrite" } else { "rewrite" })?;
                if *subsume {
                    write!(f, " :subsume")?;
                }
                if !when.is_empty() {
                    write!(f, " :when (")?;
                    for (i, w) in when.iter().enumerate() {
                        if i > 0 {
                            write!(f, " ")?;
                        }
                        write!(f, "{w}")?;
                    }
                    write!(f, ")")?;
                }
                if !ruleset.is_empty() {
                    write!(f, " :ruleset {ruleset}")?;
                }
                write!(f, ")")
            }
            Cmd::Run(r, n) => {
                if r.is_empty() {
                    write!(f, "(run {n})")
                } else {
                    write!(f, "(run {r} {n})")
                }
            }
            Cmd::RunSchedule(s) => write!(f, "(run-schedule {s})"),
            Cmd::Check(facts) => {
                write!(f, "(check")?;
                for x in facts {
                    write!(f, " {x}")?;
                }
                write!(f, ")")
            }
            Cmd::FailCheck(facts) => {
                write!(f, "(fail (check")?;
                for x in facts {
                    write!(f, " {x}")?;
                }
                write!(f, "))")
            }
            Cmd::Extract(t) => write!(f, "(extract {t})"),
            Cmd::Push => write!(f, "(push)"),
            Cmd::Pop => write!(f, "(pop)"),
            Cmd::PrintSize(None) => write!(f, "(print-size)"),
            Cmd::PrintSize(Some(n)) => write!(f, "(print-size {n})"),
            Cmd::PrintFunction(n) => write!(f, "(print-function {n} 1000)"),
        }
    }
}

pub fn program_text(cmds: &[Cmd]) -> String {
    cmds.iter().map(|c| c.to_string()).collect::<Vec<_>>().join("\n")
}

#[derive(Clone, Debug)]
pub struct GenCfg {
    pub max_sorts: usize,
    pub containers: bool,
    pub costs: bool,
    pub unextractable: bool,
    pub funcs: bool,
    pub nomerge: bool,
    pub rules: bool,
    pub subsume: bool,
    pub delete: bool,
    pub pushpop: bool,
    pub i64_cols: bool,
    pub checks: bool,
    pub extracts: bool,
    pub prints: bool,
    pub n_cmds: (usize, usize),
    pub term_building_rules: bool,
    pub schedules: bool,
    /// name prefix so several signatures can coexist in one e-graph
    pub prefix: String,
    /// top-level (subsume t) is preceded by an insertion of t (known finding F-C11-subsume-absent)
    pub subsume_existing_only: bool,
    /// (delete ..) only on function entries and relation rows, never on constructor terms
    /// whose e-class id could be referenced elsewhere (known finding F-C11-delete-reinsert)
    pub delete_nonminting_only: bool,
    /// at most one container sort per kind (known finding F-C11-container-literal-inference)
    pub one_container_per_kind: bool,
    /// container sorts whose elements are themselves containers (Vec/Set/MultiSet of an earlier container sort)
    pub nested_containers: bool,
    /// make one e-class sort reachable from the other sorts ONLY through a nested container
    pub isolate_behind_nested: bool,
}

impl Default for GenCfg {
    fn default() -> Self {
        GenCfg {
            max_sorts: 2,
            containers: false,
            costs: false,
            unextractable: false,
            funcs: true,
            nomerge: false,
            rules: true,
            subsume: false,
            delete: false,
            pushpop: false,
            i64_cols: true,
            checks: true,
            extracts: false,
            prints: false,
            n_cmds: (8, 22),
            term_building_rules: true,
            schedules: true,
            prefix: String::new(),
            subsume_existing_only: false,
            delete_nonminting_only: false,
            one_container_per_kind: false,
            nested_containers: false,
            isolate_behind_nested: false,
        }
    }
}

impl Sig {
    pub fn ty_name(&self, t: &Ty) -> String {
        match t {
            Ty::Eq(i) => self.sorts[*i].clone(),
            Ty::I64 => "i64".into(),
            Ty::Cont(i) => self.conts[*i].name.clone(),
        }
    }

    pub fn decls(&self, rng: &mut Rng, shuffle: bool) -> Vec<Cmd> {
        let mut out = vec![];
        for s in &self.sorts {
            out.push(Cmd::Decl(format!("(sort {s})")));
        }
        for c in &self.conts {
            let k = match c.kind {
                CKind::Vec => "Vec",
                CKind::Set => "Set",
                CKind::MultiSet => "MultiSet",
                CKind::Map => "Map",
                CKind::Pair => "Pair",
            };
            let args = match &c.b {
                Some(b) => format!("{} {}", self.ty_name(&c.a), self.ty_name(b)),
                None => self.ty_name(&c.a),
            };
            out.push(Cmd::Decl(format!("(sort {} ({k} {args}))", c.name)));
        }
        let mut decls = vec![];
        for c in &self.ctors {
            let args: Vec<String> = c.args.iter().map(|t| self.ty_name(t)).collect();
            let mut s = format!("(constructor {} ({}) {}", c.name, args.join(" "), self.sorts[c.out]);
            if let Some(k) = c.cost {
                s.push_str(&format!(" :cost {k}"));
            }
            if c.unextractable {
                s.push_str(" :unextractable");
            }
            s.push(')');
            decls.push(Cmd::Decl(s));
        }
        for r in &self.rels {
            let args: Vec<String> = r.args.iter().map(|t| self.ty_name(t)).collect();
            decls.push(Cmd::Decl(format!("(relation {} ({}))", r.name, args.join(" "))));
        }
        for fu in &self.funcs {
            let args: Vec<String> = fu.args.iter().map(|t| self.ty_name(t)).collect();
            let m = match fu.merge {
                Merge::Min => ":merge (min old new)",
                Merge::Max => ":merge (max old new)",
                Merge::NoMerge => ":no-merge",
            };
            decls.push(Cmd::Decl(format!("(function {} ({}) i64 {m})", fu.name, args.join(" "))));
        }
        if shuffle {
            rng.shuffle(&mut decls);
        }
        out.extend(decls);
        for r in &self.rulesets {
            out.push(Cmd::Decl(format!("(ruleset {r})")));
        }
        out
    }

    pub fn ctors_of(&self, sort: usize) -> Vec<&Ctor> {
        self.ctors.iter().filter(|c| c.out == sort).collect()
    }
}

pub fn gen_sig(rng: &mut Rng, cfg: &GenCfg) -> Sig {
    let p = &cfg.prefix;
    let mut sig = Sig::default();
    let ns = 1 + rng.below(cfg.max_sorts);
    for i in 0..ns {
        sig.sorts.push(format!("{p}S{i}"));
    }
    if cfg.containers {
        let nc = 1 + rng.below(2) + if cfg.nested_containers { 1 } else { 0 };
        for i in 0..nc {
            let kind = *rng.pick(&[CKind::Vec, CKind::Set, CKind::MultiSet, CKind::Map, CKind::Pair]);
            let a = Ty::Eq(rng.below(ns));
            // nesting: elements of an earlier (non-Map) container sort
            let inner: Vec<usize> = sig.conts.iter().enumerate().filter(|(_, c)| c.kind != CKind::Map).map(|(j, _)| j).collect();
            let a = if cfg.nested_containers && !inner.is_empty() && matches!(kind, CKind::Vec | CKind::Set | CKind::MultiSet) && rng.chance(2, 3) { Ty::Cont(*rng.pick(&inner)) } else { a };
            let b = match kind {
                CKind::Map => Some(Ty::Eq(rng.below(ns))),
                CKind::Pair => Some(if rng.chance(1, 2) { Ty::Eq(rng.below(ns)) } else { Ty::I64 }),
                _ => None,
            };
            // Map keys that collide after unions are outside the claims: use i64 keys.
            let a = if kind == CKind::Map { Ty::I64 } else { a };
            if sig.conts.iter().any(|c| c.kind == kind && ((c.a == a && c.b == b) || cfg.one_container_per_kind)) {
                // two sorts with one container definition are ambiguous for the encoder
                // (known finding F-C11-duplicate-container-sort)
                continue;
            }
            sig.conts.push(ContSort { name: format!("{p}K{}", sig.conts.len()), kind, a, b });
        }
    }
    // constructors: every sort gets >=2 nullary and 1-4 others
    let mut cn = 0;
    for s in 0..ns {
        let nnull = 2 + rng.below(2);
        for _ in 0..nnull {
            sig.ctors.push(Ctor { name: format!("{p}C{cn}"), args: vec![], out: s, cost: None, unextractable: false });
            cn += 1;
        }
        let nother = 1 + rng.below(4);
        for _ in 0..nother {
            let ar = 1 + rng.weighted(&[5, 4, 1]);
            let mut args = vec![];
            for _ in 0..ar {
                let t = if cfg.i64_cols && rng.chance(1, 6) {
                    Ty::I64
                } else if cfg.containers && !sig.conts.is_empty() && rng.chance(1, 4) {
                    Ty::Cont(rng.below(sig.conts.len()))
                } else {
                    Ty::Eq(rng.below(ns))
                };
                args.push(t);
            }
            sig.ctors.push(Ctor { name: format!("{p}C{cn}"), args, out: s, cost: None, unextractable: false });
            cn += 1;
        }
    }
    if cfg.isolate_behind_nested && ns >= 2 {
        // a nested container sort whose innermost elements are e-classes of some sort s1
        let reaches = |sig: &Sig, t: &Ty, s1: usize| -> bool {
            let mut cur = t.clone();
            loop {
                match cur {
                    Ty::Eq(s) => return s == s1,
                    Ty::I64 => return false,
                    Ty::Cont(i) => cur = sig.conts[i].a.clone(),
                }
            }
        };
        let nested: Vec<(usize, usize)> = sig
            .conts
            .iter()
            .enumerate()
            .filter_map(|(j, c)| match &c.a {
                Ty::Cont(i) => match &sig.conts[*i].a {
                    Ty::Eq(s1) => Some((j, *s1)),
                    _ => None,
                },
                _ => None,
            })
            .collect();
        if let Some((j, s1)) = nested.first().copied() {
            let conts = sig.clone();
            for c in sig.ctors.iter_mut().filter(|c| c.out != s1) {
                let out = c.out;
                for a in c.args.iter_mut() {
                    let through_other = match a {
                        Ty::Cont(k) => *k != j && reaches(&conts, &Ty::Cont(*k), s1),
                        Ty::Eq(s) => *s == s1,
                        Ty::I64 => false,
                    };
                    if through_other {
                        *a = Ty::Eq(out);
                    }
                }
            }
            let other = (0..ns).find(|s| *s != s1).unwrap();
            if !sig.ctors.iter().any(|c| c.out != s1 && c.args.contains(&Ty::Cont(j))) {
                sig.ctors.push(Ctor { name: format!("{p}C{cn}"), args: vec![Ty::Cont(j)], out: other, cost: None, unextractable: false });
            }
        }
    }
    if cfg.costs {
        for c in sig.ctors.iter_mut() {
            if rng.chance(2, 3) {
                c.cost = Some(match rng.below(10) {
                    0 => 0,
                    1 => i64::MAX as u64,
                    2 => (i64::MAX as u64) / 2 + 1,
                    3 => 1_000_000_007,
                    _ => 1 + rng.below(20) as u64,
                });
            }
        }
    }
    if cfg.unextractable {
        for c in sig.ctors.iter_mut() {
            if rng.chance(1, 6) {
                c.unextractable = true;
            }
        }
    }
    let nr = 1 + rng.below(3);
    for i in 0..nr {
        let ar = 1 + rng.below(3);
        let args = (0..ar)
            .map(|_| if cfg.i64_cols && rng.chance(1, 5) { Ty::I64 } else { Ty::Eq(rng.below(ns)) })
            .collect();
        sig.rels.push(Rel { name: format!("{p}R{i}"), args });
    }
    if cfg.funcs {
        let nf = rng.below(3);
        for i in 0..nf {
            let ar = rng.below(3);
            let args = (0..ar)
                .map(|_| if cfg.i64_cols && rng.chance(1, 4) { Ty::I64 } else { Ty::Eq(rng.below(ns)) })
                .collect();
            let merge = if cfg.nomerge && rng.chance(1, 4) {
                Merge::NoMerge
            } else if rng.chance(1, 2) {
                Merge::Min
            } else {
                Merge::Max
            };
            sig.funcs.push(Func { name: format!("{p}f{i}"), args, merge });
        }
    }
    let nrs = 1 + rng.below(2);
    for i in 0..nrs {
        sig.rulesets.push(format!("{p}rs{i}"));
    }
    sig
}

/// Generator state for one history.
pub struct Gen<'a> {
    pub sig: &'a Sig,
    pub cfg: &'a GenCfg,
    pub globals: Vec<(String, Ty)>,
    pub n_rules: usize,
    /// per ruleset: does it contain only rules that cannot create new terms/values?
    pub ruleset_safe: Vec<bool>,
    pub ruleset_nonempty: Vec<bool>,
}

impl<'a> Gen<'a> {
    pub fn new(sig: &'a Sig, cfg: &'a GenCfg) -> Self {
        Gen {
            sig,
            cfg,
            globals: vec![],
            n_rules: 0,
            ruleset_safe: vec![true; sig.rulesets.len()],
            ruleset_nonempty: vec![false; sig.rulesets.len()],
        }
    }

    pub fn gd(&self, rng: &mut Rng, ty: &Ty, lo: usize, span: usize) -> T {
        let d = lo + rng.below(span);
        self.ground(rng, ty, d)
    }

    pub fn ground(&self, rng: &mut Rng, ty: &Ty, depth: usize) -> T {
        match ty {
            Ty::I64 => T::Int(rng.range(0, 4)),
            Ty::Eq(s) => {
                if depth > 0 && rng.chance(1, 5) {
                    let gs: Vec<&(String, Ty)> = self.globals.iter().filter(|g| g.1 == *ty).collect();
                    if !gs.is_empty() {
                        return T::Var(rng.pick(&gs).0.clone());
                    }
                }
                let cs = self.sig.ctors_of(*s);
                let cands: Vec<&&Ctor> = if depth == 0 {
                    cs.iter().filter(|c| c.args.is_empty()).collect()
                } else {
                    cs.iter().collect()
                };
                let c = rng.pick(&cands);
                T::App(c.name.clone(), c.args.iter().map(|a| self.ground(rng, a, depth - 1.min(depth))).collect())
            }
            Ty::Cont(i) => {
                let c = &self.sig.conts[*i];
                let d = depth.saturating_sub(1);
                match c.kind {
                    CKind::Vec => {
                        let n = rng.below(3);
                        if n == 0 {
                            T::Prim("vec-empty".into(), vec![])
                        } else {
                            T::Prim("vec-of".into(), (0..n).map(|_| self.ground(rng, &c.a, d)).collect())
                        }
                    }
                    CKind::Set => {
                        let n = rng.below(3);
                        if n == 0 {
                            T::Prim("set-empty".into(), vec![])
                        } else {
                            T::Prim("set-of".into(), (0..n).map(|_| self.ground(rng, &c.a, d)).collect())
                        }
                    }
                    CKind::MultiSet => {
                        let n = rng.below(4);
                        T::Prim("multiset-of".into(), (0..n).map(|_| self.ground(rng, &c.a, d)).collect())
                    }
                    CKind::Map => {
                        let n = rng.below(3);
                        let mut t = T::Prim("map-empty".into(), vec![]);
                        for k in 0..n {
                            t = T::Prim(
                                "map-insert".into(),
                                vec![t, T::Int(k as i64), self.ground(rng, c.b.as_ref().unwrap(), d)],
                            );
                        }
                        t
                    }
                    CKind::Pair => T::Prim(
                        "pair".into(),
                        vec![self.ground(rng, &c.a, d), self.ground(rng, c.b.as_ref().unwrap(), d)],
                    ),
                }
            }
        }
    }

    fn fresh_var(vars: &mut Vec<(String, Ty)>, ty: &Ty) -> String {
        let v = format!("v{}", vars.len());
        vars.push((v.clone(), ty.clone()));
        v
    }

    fn var_or_fresh(&self, rng: &mut Rng, vars: &mut Vec<(String, Ty)>, ty: &Ty, reuse: u32) -> T {
        let same: Vec<String> = vars.iter().filter(|v| v.1 == *ty).map(|v| v.0.clone()).collect();
        if !same.is_empty() && rng.chance(reuse, 10) {
            T::Var(rng.pick(&same).clone())
        } else {
            T::Var(Self::fresh_var(vars, ty))
        }
    }

    /// A pattern of type `ty`: variable, nested constructor pattern or ground constant.
    fn pattern(&self, rng: &mut Rng, vars: &mut Vec<(String, Ty)>, ty: &Ty, depth: usize) -> T {
        match ty {
            Ty::I64 => {
                if rng.chance(1, 7) {
                    T::Int(rng.range(0, 3))
                } else {
                    self.var_or_fresh(rng, vars, ty, 3)
                }
            }
            Ty::Cont(_) => self.var_or_fresh(rng, vars, ty, 3),
            Ty::Eq(s) => {
                let r = rng.below(10);
                if depth > 0 && r < 2 {
                    let cs = self.sig.ctors_of(*s);
                    let c = rng.pick(&cs);
                    T::App(c.name.clone(), c.args.iter().map(|a| self.pattern(rng, vars, a, depth - 1)).collect())
                } else {
                    self.var_or_fresh(rng, vars, ty, 5)
                }
            }
        }
    }

    /// Returns (body, bound vars with types)
    pub fn body(&self, rng: &mut Rng, natoms: usize) -> (Vec<Fact>, Vec<(String, Ty)>) {
        let mut vars: Vec<(String, Ty)> = vec![];
        let mut body = vec![];
        for _ in 0..natoms {
            let k = rng.weighted(&[5, 4, if self.sig.funcs.is_empty() { 0 } else { 2 }]);
            match k {
                0 => {
                    // (= v (C p..))
                    let nonnull: Vec<&Ctor> = self.sig.ctors.iter().filter(|c| !c.args.is_empty()).collect();
                    let c = if nonnull.is_empty() || rng.chance(1, 8) { rng.pick(&self.sig.ctors) } else { *rng.pick(&nonnull) };
                    let args = c.args.iter().map(|a| self.pattern(rng, &mut vars, a, 1)).collect();
                    let v = self.var_or_fresh(rng, &mut vars, &Ty::Eq(c.out), 4);
                    body.push(Fact::Eq(v, T::App(c.name.clone(), args)));
                }
                1 => {
                    let r = rng.pick(&self.sig.rels);
                    let args = r.args.iter().map(|a| self.pattern(rng, &mut vars, a, 1)).collect();
                    body.push(Fact::Atom(T::App(r.name.clone(), args)));
                }
                _ => {
                    let fu = rng.pick(&self.sig.funcs);
                    let mut args: Vec<T> = vec![];
                    for a in &fu.args {
                        // an i64 argument may itself be a function lookup: (f (g x) y)
                        if *a == Ty::I64 && rng.chance(1, 5) {
                            let gu = rng.pick(&self.sig.funcs);
                            let gargs = gu.args.iter().map(|b| self.pattern(rng, &mut vars, b, 0)).collect();
                            args.push(T::App(gu.name.clone(), gargs));
                        } else {
                            args.push(self.pattern(rng, &mut vars, a, 0));
                        }
                    }
                    let v = self.var_or_fresh(rng, &mut vars, &Ty::I64, 2);
                    // both orientations of the equation
                    if rng.chance(1, 3) {
                        body.push(Fact::Eq(T::App(fu.name.clone(), args), v));
                    } else {
                        body.push(Fact::Eq(v, T::App(fu.name.clone(), args)));
                    }
                }
            }
        }
        // optional guard
        let ints: Vec<String> = vars.iter().filter(|v| v.1 == Ty::I64).map(|v| v.0.clone()).collect();
        if !ints.is_empty() && rng.chance(1, 3) {
            let a = rng.pick(&ints).clone();
            let g = match rng.below(3) {
                0 => T::Prim("<".into(), vec![T::Var(a), T::Int(rng.range(1, 4))]),
                1 => T::Prim("!=".into(), vec![T::Var(a), T::Int(rng.range(0, 3))]),
                _ => {
                    let b = rng.pick(&ints).clone();
                    T::Prim("<=".into(), vec![T::Var(a), T::Var(b)])
                }
            };
            body.push(Fact::Atom(g));
        }
        (body, vars)
    }

    /// A term of type ty built from bound vars (depth<=1 constructor applications if `build`).
    fn head_term(&self, rng: &mut Rng, vars: &[(String, Ty)], ty: &Ty, build: bool) -> Option<T> {
        let same: Vec<&(String, Ty)> = vars.iter().filter(|v| v.1 == *ty).collect();
        match ty {
            Ty::I64 => {
                if !same.is_empty() && rng.chance(3, 4) {
                    Some(T::Var(rng.pick(&same).0.clone()))
                } else {
                    Some(T::Int(rng.range(0, 4)))
                }
            }
            Ty::Cont(_) => {
                if same.is_empty() { None } else { Some(T::Var(rng.pick(&same).0.clone())) }
            }
            Ty::Eq(s) => {
                if build && rng.chance(1, 2) {
                    let cs = self.sig.ctors_of(*s);
                    let c = rng.pick(&cs);
                    let mut args = vec![];
                    for a in &c.args {
                        args.push(self.head_term(rng, vars, a, false)?);
                    }
                    Some(T::App(c.name.clone(), args))
                } else if !same.is_empty() {
                    Some(T::Var(rng.pick(&same).0.clone()))
                } else {
                    let cs: Vec<&Ctor> = self.sig.ctors_of(*s).into_iter().filter(|c| c.args.is_empty()).collect();
                    Some(T::App(rng.pick(&cs).name.clone(), vec![]))
                }
            }
        }
    }

    /// Returns (rule, safe) where safe means the head cannot create new terms or values.
    pub fn rule(&mut self, rng: &mut Rng, ruleset_idx: usize) -> Cmd {
        let natoms = 1 + rng.weighted(&[4, 4, 2, 1]);
        let (body, vars) = self.body(rng, natoms);
        // new terms only from single-atom bodies: every match then creates at most one term, so
        // the database grows at most geometrically with a small factor per iteration (a join
        // body that builds terms can square the database in one iteration)
        let build = self.cfg.term_building_rules && natoms == 1 && rng.chance(1, 2);
        let mut head = vec![];
        let nacts = 1 + rng.below(2);
        let mut safe = !build;
        for _ in 0..nacts {
            let k = rng.weighted(&[4, 4, if self.sig.funcs.is_empty() { 0 } else { 2 }, if self.cfg.subsume { 1 } else { 0 }]);
            match k {
                0 => {
                    // union two things of the same eq sort
                    let eqs: Vec<&(String, Ty)> = vars.iter().filter(|v| matches!(v.1, Ty::Eq(_))).collect();
                    if eqs.is_empty() {
                        continue;
                    }
                    let a = rng.pick(&eqs);
                    if let Some(b) = self.head_term(rng, &vars, &a.1, build) {
                        head.push(Act::Union(T::Var(a.0.clone()), b));
                    }
                }
                1 => {
                    let r = rng.pick(&self.sig.rels);
                    let mut args = vec![];
                    let mut ok = true;
                    for a in &r.args {
                        match self.head_term(rng, &vars, a, build) {
                            Some(t) => args.push(t),
                            None => ok = false,
                        }
                    }
                    if ok {
                        head.push(Act::Expr(T::App(r.name.clone(), args)));
                    }
                }
                2 => {
                    let fu = rng.pick(&self.sig.funcs);
                    if fu.merge == Merge::NoMerge {
                        continue;
                    }
                    let mut args = vec![];
                    let mut ok = true;
                    for a in &fu.args {
                        match self.head_term(rng, &vars, a, false) {
                            Some(t) => args.push(t),
                            None => ok = false,
                        }
                    }
                    if ok {
                        let v = self.head_term(rng, &vars, &Ty::I64, false).unwrap();
                        let v = if build && rng.chance(1, 3) {
                            safe = false;
                            T::Prim("+".into(), vec![v, T::Int(1)])
                        } else {
                            v
                        };
                        head.push(Act::Set(fu.name.clone(), args, v));
                    }
                }
                _ => {
                    // subsume a matched constructor application
                    for b in &body {
                        if let Fact::Eq(_, t @ T::App(n, _)) = b {
                            if self.sig.ctors.iter().any(|c| &c.name == n) {
                                head.push(Act::Subsume(t.clone()));
                                break;
                            }
                        }
                    }
                }
            }
        }
        if head.is_empty() {
            // fall back to a relation insert of constants
            let r = &self.sig.rels[0];
            let args = r.args.iter().map(|a| self.ground(rng, a, 0)).collect();
            head.push(Act::Expr(T::App(r.name.clone(), args)));
        }
        self.n_rules += 1;
        if !safe {
            self.ruleset_safe[ruleset_idx] = false;
        }
        self.ruleset_nonempty[ruleset_idx] = true;
        Cmd::Rule {
            body,
            head,
            opts: RuleOpts {
                ruleset: self.sig.rulesets[ruleset_idx].clone(),
                name: None,
                naive: false,
                no_decomp: rng.chance(1, 8),
            },
        }
    }

    pub fn rewrite(&mut self, rng: &mut Rng, ruleset_idx: usize) -> Cmd {
        let mut vars = vec![];
        let nonnull: Vec<&Ctor> = self.sig.ctors.iter().filter(|c| !c.args.is_empty() && c.args.iter().all(|a| !matches!(a, Ty::Cont(_)))).collect();
        if nonnull.is_empty() {
            return self.rule(rng, ruleset_idx);
        }
        let c = *rng.pick(&nonnull);
        let lhs = T::App(c.name.clone(), c.args.iter().map(|a| self.pattern(rng, &mut vars, a, 1)).collect());
        let build = self.cfg.term_building_rules && rng.chance(1, 2);
        let rhs = match self.head_term(rng, &vars, &Ty::Eq(c.out), build) {
            Some(t) => t,
            None => self.head_term(rng, &vars, &Ty::Eq(c.out), false).unwrap(),
        };
        if !matches!(rhs, T::Var(_)) && build {
            self.ruleset_safe[ruleset_idx] = false;
        }
        if let T::App(_, a) = &rhs {
            if !a.is_empty() {
                self.ruleset_safe[ruleset_idx] = false;
            }
        }
        self.ruleset_nonempty[ruleset_idx] = true;
        self.n_rules += 1;
        let subsume = self.cfg.subsume && rng.chance(1, 3);
        Cmd::Rewrite { lhs, rhs, subsume, when: vec![], ruleset: self.sig.rulesets[ruleset_idx].clone(), bi: false }
    }

    pub fn check_fact(&self, rng: &mut Rng) -> Vec<Fact> {
        let s = rng.below(self.sig.sorts.len());
        let a = self.ground(rng, &Ty::Eq(s), 2);
        let b = self.ground(rng, &Ty::Eq(s), 2);
        vec![Fact::Eq(a, b)]
    }

    pub fn schedule(&self, rng: &mut Rng, depth: usize) -> Sched {
        let rs = rng.below(self.sig.rulesets.len());
        let name = self.sig.rulesets[rs].clone();
        if depth == 0 {
            return Sched::Run(name, None);
        }
        match rng.below(4) {
            0 => Sched::Run(name, None),
            1 => Sched::Repeat(1 + rng.below(2) as u32, vec![self.schedule(rng, depth - 1)]),
            2 => {
                if self.ruleset_safe.iter().all(|x| *x) {
                    Sched::Saturate(vec![self.schedule(rng, depth - 1)])
                } else {
                    Sched::Repeat(2, vec![self.schedule(rng, depth - 1)])
                }
            }
            _ => Sched::Seq(vec![self.schedule(rng, depth - 1), self.schedule(rng, depth - 1)]),
        }
    }

    /// One random top-level command (not a declaration).
    pub fn command(&mut self, rng: &mut Rng) -> Cmd {
        let cfg = self.cfg;
        let w = [
            6,                                     // 0 insert term
            5,                                     // 1 union
            3,                                     // 2 relation fact
            if self.sig.funcs.is_empty() { 0 } else { 3 }, // 3 set
            2,                                     // 4 let
            if cfg.rules { 4 } else { 0 },         // 5 rule/rewrite
            if cfg.rules { 4 } else { 0 },         // 6 run
            if cfg.checks { 2 } else { 0 },        // 7 check
            if cfg.subsume { 2 } else { 0 },       // 8 subsume
            if cfg.delete { 2 } else { 0 },        // 9 delete
            if cfg.extracts { 2 } else { 0 },      // 10 extract
            if cfg.prints { 1 } else { 0 },        // 11 print
            if cfg.rules && cfg.schedules { 1 } else { 0 }, // 12 run-schedule
        ];
        let ns = self.sig.sorts.len();
        match rng.weighted(&w) {
            0 => {
                let s = rng.below(ns);
                Cmd::Act(Act::Expr(self.gd(rng, &Ty::Eq(s), 1, 3)))
            }
            1 => {
                let s = rng.below(ns);
                let a = self.gd(rng, &Ty::Eq(s), 0, 3);
                let b = self.gd(rng, &Ty::Eq(s), 0, 2);
                Cmd::Act(Act::Union(a, b))
            }
            2 => {
                let r = rng.pick(&self.sig.rels);
                let args = r.args.iter().map(|a| self.gd(rng, a, 0, 2)).collect();
                Cmd::Act(Act::Expr(T::App(r.name.clone(), args)))
            }
            3 => {
                let fu = rng.pick(&self.sig.funcs).clone();
                let args = fu.args.iter().map(|a| self.gd(rng, a, 0, 2)).collect();
                Cmd::Act(Act::Set(fu.name.clone(), args, T::Int(rng.range(0, 6))))
            }
            4 => {
                let s = rng.below(ns);
                let t = self.gd(rng, &Ty::Eq(s), 1, 2);
                let name = format!("${}g{}", self.cfg.prefix, self.globals.len());
                self.globals.push((name.clone(), Ty::Eq(s)));
                Cmd::Act(Act::Let(name, t))
            }
            5 => {
                let rs = rng.below(self.sig.rulesets.len());
                if rng.chance(1, 3) { self.rewrite(rng, rs) } else { self.rule(rng, rs) }
            }
            6 => {
                let rs = rng.below(self.sig.rulesets.len());
                Cmd::Run(self.sig.rulesets[rs].clone(), 1 + rng.below(3) as u32)
            }
            7 => {
                // checks may fail; monitors treat check failure as an ordinary outcome
                Cmd::Check(self.check_fact(rng))
            }
            8 => {
                let nonnull: Vec<&Ctor> = self.sig.ctors.iter().filter(|c| !c.args.is_empty()).collect();
                let c = *rng.pick(&nonnull);
                let args = c.args.iter().map(|a| self.gd(rng, a, 0, 2)).collect();
                let t = T::App(c.name.clone(), args);
                if self.cfg.subsume_existing_only {
                    Cmd::Raw(format!("{t}\n(subsume {t})"))
                } else {
                    Cmd::Act(Act::Subsume(t))
                }
            }
            9 => {
                if self.cfg.delete_nonminting_only && (rng.chance(1, 2) || self.sig.funcs.is_empty()) {
                    let r = rng.pick(&self.sig.rels);
                    let args = r.args.iter().map(|a| self.gd(rng, a, 0, 2)).collect();
                    let t = T::App(r.name.clone(), args);
                    // insert first: deleting an absent row is known finding F-C11-delete-absent
                    Cmd::Raw(format!("{t}\n(delete {t})"))
                } else if self.cfg.delete_nonminting_only {
                    let fu = rng.pick(&self.sig.funcs);
                    let args: Vec<T> = fu.args.iter().map(|a| self.gd(rng, a, 0, 2)).collect();
                    let t = T::App(fu.name.clone(), args.clone());
                    if fu.merge == Merge::NoMerge {
                        Cmd::Act(Act::Expr(T::App(self.sig.rels[0].name.clone(), self.sig.rels[0].args.iter().map(|a| self.ground(rng, a, 0)).collect())))
                    } else {
                        Cmd::Raw(format!("{}\n(delete {t})", Act::Set(fu.name.clone(), args, T::Int(rng.range(0, 6)))))
                    }
                } else if !self.cfg.delete_nonminting_only && (rng.chance(1, 2) || self.sig.funcs.is_empty()) {
                    let c = rng.pick(&self.sig.ctors);
                    let args = c.args.iter().map(|a| self.gd(rng, a, 0, 2)).collect();
                    Cmd::Act(Act::Delete(T::App(c.name.clone(), args)))
                } else {
                    let fu = rng.pick(&self.sig.funcs);
                    let args = fu.args.iter().map(|a| self.gd(rng, a, 0, 2)).collect();
                    Cmd::Act(Act::Delete(T::App(fu.name.clone(), args)))
                }
            }
            10 => {
                let s = rng.below(ns);
                Cmd::Extract(self.gd(rng, &Ty::Eq(s), 1, 2))
            }
            11 => {
                if rng.chance(1, 2) {
                    Cmd::PrintSize(None)
                } else {
                    let mut names: Vec<String> = self.sig.ctors.iter().map(|c| c.name.clone()).collect();
                    names.extend(self.sig.rels.iter().map(|c| c.name.clone()));
                    names.extend(self.sig.funcs.iter().map(|c| c.name.clone()));
                    Cmd::PrintFunction(rng.pick(&names).clone())
                }
            }
            _ => Cmd::RunSchedule(self.schedule(rng, 2)),
        }
    }

    /// Seed database (ground terms and relation facts) plus a few rules, so that
    /// rule bodies have something to match.
    pub fn seed(&mut self, rng: &mut Rng) -> Vec<Cmd> {
        let mut cmds = vec![];
        let nseed = 4 + rng.below(10);
        for _ in 0..nseed {
            let s = rng.below(self.sig.sorts.len());
            if rng.chance(1, 2) {
                cmds.push(Cmd::Act(Act::Expr(self.gd(rng, &Ty::Eq(s), 1, 2))));
            } else {
                let r = rng.pick(&self.sig.rels);
                let args = r.args.iter().map(|a| self.gd(rng, a, 0, 2)).collect();
                cmds.push(Cmd::Act(Act::Expr(T::App(r.name.clone(), args))));
            }
        }
        if self.cfg.rules {
            for _ in 0..(1 + rng.below(3)) {
                let rs = rng.below(self.sig.rulesets.len());
                let c = if rng.chance(1, 3) { self.rewrite(rng, rs) } else { self.rule(rng, rs) };
                cmds.push(c);
            }
        }
        cmds
    }

    /// Hostile template: a congruence chain of length k over a unary constructor.
    pub fn congruence_chain(&self, rng: &mut Rng) -> Option<Vec<Cmd>> {
        let un: Vec<&Ctor> = self.sig.ctors.iter().filter(|c| c.args.len() == 1 && c.args[0] == Ty::Eq(c.out)).collect();
        if un.is_empty() {
            return None;
        }
        let c = *rng.pick(&un);
        let nulls: Vec<&Ctor> = self.sig.ctors_of(c.out).into_iter().filter(|x| x.args.is_empty()).collect();
        if nulls.len() < 2 {
            return None;
        }
        let k = 2 + rng.below(4);
        let wrap = |base: &str| {
            let mut t = T::App(base.to_string(), vec![]);
            for _ in 0..k {
                t = T::App(c.name.clone(), vec![t]);
            }
            t
        };
        let a = nulls[0].name.clone();
        let b = nulls[1].name.clone();
        Some(vec![
            Cmd::Act(Act::Expr(wrap(&a))),
            Cmd::Act(Act::Expr(wrap(&b))),
            Cmd::Act(Act::Union(T::App(a, vec![]), T::App(b, vec![]))),
        ])
    }
}

/// A full random history: declarations followed by commands.
pub fn gen_history(rng: &mut Rng, cfg: &GenCfg) -> (Sig, Vec<Cmd>) {
    let sig = gen_sig(rng, cfg);
    let mut cmds = sig.decls(rng, true);
    let n = cfg.n_cmds.0 + rng.below(cfg.n_cmds.1 - cfg.n_cmds.0 + 1);
    let mut depth = 0;
    {
        let mut g = Gen::new(&sig, cfg);
        let mut gstack: Vec<usize> = vec![];
        cmds.extend(g.seed(rng));
        let mut i = 0;
        while i < n {
            if rng.chance(1, 12) {
                if let Some(ch) = g.congruence_chain(rng) {
                    i += ch.len();
                    cmds.extend(ch);
                    continue;
                }
            }
            if cfg.pushpop && rng.chance(1, 10) {
                if depth > 0 && rng.chance(1, 2) {
                    cmds.push(Cmd::Pop);
                    depth -= 1;
                    let keep = gstack.pop().unwrap();
                    g.globals.truncate(keep);
                } else if depth < 2 {
                    cmds.push(Cmd::Push);
                    depth += 1;
                    gstack.push(g.globals.len());
                }
                i += 1;
                continue;
            }
            cmds.push(g.command(rng));
            i += 1;
        }
        if cfg.rules && gstack.is_empty() {
            for (ri, rs) in sig.rulesets.iter().enumerate() {
                if g.ruleset_nonempty[ri] {
                    cmds.push(Cmd::Run(rs.clone(), 1 + rng.below(3) as u32));
                }
            }
        }
    }
    (sig, cmds)
}
