//! C10 — schedules mean what they say (run, repeat, saturate, seq, :until, combined rulesets).
//!
//! Oracle: (i) algebraic laws checked engine-vs-engine on clones of one e-graph;
//! (ii) a literal reference scheduler in the harness that drives single
//! iterations and decides "changes nothing" by comparing canonical dumps.
use crate::c03::{canon, first_diff};
use crate::dump;
use crate::out::Report;
use crate::pgen::{self, Cmd, Gen, GenCfg, Sched};
use crate::rng::Rng;
use crate::run::{self, Outcome};
use crate::Args;
use egglog::{CommandOutput, EGraph};
use serde_json::json;

/// run one `(run R 1)`; returns (engine says updated, dump changed)
fn step(eg: &mut EGraph, ruleset: &str) -> Result<(bool, bool), String> {
    let before = canon(eg);
    let outs = run::run_raw(eg, &format!("(run {ruleset} 1)")).map_err(|o| o.short())?;
    let mut updated = false;
    for o in outs {
        if let CommandOutput::RunSchedule(r) = o {
            updated |= r.updated;
        }
    }
    let after = canon(eg);
    Ok((updated, before != after))
}

fn sched_ok(eg: &mut EGraph, text: &str) -> Result<bool, String> {
    let outs = run::run_raw(eg, text).map_err(|o| o.short())?;
    let mut updated = false;
    for o in outs {
        if let CommandOutput::RunSchedule(r) = o {
            updated |= r.updated;
        }
    }
    Ok(updated)
}

/// Literal reading of a schedule: `(run R)` is one iteration; `seq` runs its members in order;
/// `repeat n` executes its body up to n times and stops early only after an execution that
/// changed nothing; `saturate` executes its body until an execution changes nothing. "Changed"
/// is decided by the canonical dump, never by the engine's own progress signal.
fn interp(e: &mut EGraph, s: &Sched, budget: &mut usize) -> Result<bool, String> {
    if *budget == 0 {
        return Err("budget".into());
    }
    match s {
        Sched::Run(r, None) => {
            *budget -= 1;
            step(e, r).map(|(_, changed)| changed)
        }
        Sched::Run(_, Some(_)) => Err("until".into()),
        Sched::Seq(v) => {
            let mut any = false;
            for x in v {
                any |= interp(e, x, budget)?;
            }
            Ok(any)
        }
        Sched::Repeat(n, v) => {
            let mut any = false;
            for _ in 0..*n {
                let mut ch = false;
                for x in v {
                    ch |= interp(e, x, budget)?;
                }
                if !ch {
                    break;
                }
                any = true;
            }
            Ok(any)
        }
        Sched::Saturate(v) => {
            let mut any = false;
            loop {
                let mut ch = false;
                for x in v {
                    ch |= interp(e, x, budget)?;
                }
                if !ch {
                    break;
                }
                any = true;
            }
            Ok(any)
        }
    }
}

/// upper bound on the number of single iterations a schedule can run (saturate counted as 40 rounds)
fn sched_cost(s: &Sched) -> usize {
    match s {
        Sched::Run(..) => 1,
        Sched::Seq(v) => v.iter().map(sched_cost).sum(),
        Sched::Repeat(n, v) => (*n as usize) * v.iter().map(sched_cost).sum::<usize>(),
        Sched::Saturate(v) => 40 * v.iter().map(sched_cost).sum::<usize>(),
    }
}

fn gen_sched(rng: &mut Rng, rulesets: &[String], depth: usize, saturate_ok: bool) -> Sched {
    let run = |rng: &mut Rng| Sched::Run(rng.pick(rulesets).clone(), None);
    if depth == 0 {
        return run(rng);
    }
    match rng.weighted(&[2, 3, 4, if saturate_ok { 1 } else { 0 }]) {
        0 => run(rng),
        1 => Sched::Seq((0..2 + rng.below(2)).map(|_| gen_sched(rng, rulesets, depth - 1, saturate_ok)).collect()),
        2 => Sched::Repeat(2 + rng.below(5) as u32, (0..1 + rng.below(2)).map(|_| gen_sched(rng, rulesets, depth - 1, saturate_ok)).collect()),
        _ => Sched::Saturate(vec![gen_sched(rng, rulesets, depth - 1, false)]),
    }
}

pub fn run(a: &Args) -> Report {
    let mut rep = Report::new(
        "C10",
        "generated programs; on clones of the resulting e-graph pairs of schedules related by a law (run n = n single steps with early stop; repeat a (repeat b s) = repeat a*b s; saturate idempotence and fixpoint; seq associativity/flattening; :until = check-then-step; combined ruleset = union of member rules incl. rules added after the combination) must give equal canonical dumps; per-iteration progress signal compared with dump change (missed progress is a violation). Non-trivial = a law instance whose schedule changed the database; distinct by (law, final dump).",
    );
    let n = a.cases(300, 15000);
    let root = Rng::new(a.seed);
    for case in 0..n {
        let mut rng = root.fork(case);
        let cfg = GenCfg {
            containers: rng.chance(1, 5),
            subsume: rng.chance(1, 4),
            term_building_rules: rng.chance(1, 2),
            n_cmds: (8, 20),
            schedules: false,
            ..Default::default()
        };
        let sig = pgen::gen_sig(&mut rng, &cfg);
        let mut g = Gen::new(&sig, &cfg);
        let mut prog: Vec<String> = sig.decls(&mut rng, true).iter().map(|c| c.to_string()).collect();
        // a third ruleset "all" that receives a copy of every rule, and a combined ruleset
        prog.push("(ruleset all)".into());
        let combined_late = rng.chance(1, 2);
        let comb_decl = format!("(unstable-combined-ruleset comb {})", sig.rulesets.join(" "));
        if !combined_late {
            prog.push(comb_decl.clone());
        }
        let ncmd = cfg.n_cmds.0 + rng.below(cfg.n_cmds.1 - cfg.n_cmds.0);
        let mut generated: Vec<Cmd> = g.seed(&mut rng);
        for _ in 0..ncmd {
            generated.push(g.command(&mut rng));
        }
        for c in generated {
            match &c {
                Cmd::Rule { body, head, opts } => {
                    prog.push(c.to_string());
                    let mut o2 = opts.clone();
                    o2.ruleset = "all".into();
                    prog.push(Cmd::Rule { body: body.clone(), head: head.clone(), opts: o2 }.to_string());
                }
                Cmd::Rewrite { lhs, rhs, subsume, when, bi, .. } => {
                    prog.push(c.to_string());
                    prog.push(
                        Cmd::Rewrite { lhs: lhs.clone(), rhs: rhs.clone(), subsume: *subsume, when: when.clone(), ruleset: "all".into(), bi: *bi }
                            .to_string(),
                    );
                }
                Cmd::Run(..) | Cmd::RunSchedule(..) => {} // runs are issued by the law instances
                _ => prog.push(c.to_string()),
            }
        }
        if combined_late {
            prog.push(comb_decl);
        }
        let mut base = EGraph::new(a.threads);
        if a.get("naive") == Some("1") {
            base.seminaive = false;
        }
        let mut ok = true;
        for c in &prog {
            if let Outcome::Panic(p) = run::run(&mut base, c) {
                rep.inconclusive(&format!("panic while building base program: {p}"));
                ok = false;
                break;
            }
        }
        rep.evaluations += 1;
        if !ok {
            continue;
        }
        if base.num_tuples() > 1500 {
            rep.count("programs_skipped_large_db", 1);
            continue;
        }
        let all_safe = g.ruleset_safe.iter().all(|x| *x);
        let r0 = sig.rulesets[0].clone();
        let r1 = sig.rulesets[sig.rulesets.len() - 1].clone();
        let base_dump = canon(&base);
        let progtext = prog.join("\n");
        let mut law = |name: &str, lhs: &[String], rhs: &[String], rep: &mut Report| {
            let mut ea = base.clone();
            let mut eb = base.clone();
            let mut oa = vec![];
            let mut ob = vec![];
            for c in lhs {
                oa.push(run::run(&mut ea, c).kind());
            }
            for c in rhs {
                ob.push(run::run(&mut eb, c).kind());
            }
            let da = canon(&ea);
            let db = canon(&eb);
            rep.count("law_instances", 1);
            rep.count(&format!("law_{name}"), 1);
            if da != base_dump {
                rep.nontrivial(&format!("{name}|{da}"));
            }
            let a_err = oa.iter().any(|k| *k != "ok");
            let b_err = ob.iter().any(|k| *k != "ok");
            if a_err != b_err || da != db {
                let replay = format!("{progtext}\n; law {name}\n; LHS\n{}\n; RHS\n{}", lhs.join("\n"), rhs.join("\n"));
                rep.violation(
                    &format!("C10:{name}:{}", dump::fnv(&replay)),
                    &format!("law `{name}` broken: outcomes {oa:?} vs {ob:?}; {}", first_diff(&da, &db)),
                    &replay,
                );
            }
        };
        let nn = 2 + rng.below(3);
        let aa = 1 + rng.below(3);
        let bb = 1 + rng.below(3);
        // run n == repeat n (run 1)
        law("run_n_eq_repeat", &[format!("(run {r0} {nn})")], &[format!("(run-schedule (repeat {nn} (run {r0})))")], &mut rep);
        law(
            "repeat_mul",
            &[format!("(run-schedule (repeat {aa} (repeat {bb} (run {r0}))))")],
            &[format!("(run-schedule (repeat {} (run {r0})))", aa * bb)],
            &mut rep,
        );
        law(
            "seq_assoc",
            &[format!("(run-schedule (seq (run {r0}) (seq (run {r1}) (run {r0}))))")],
            &[format!("(run-schedule (seq (seq (run {r0}) (run {r1})) (run {r0})))")],
            &mut rep,
        );
        law(
            "seq_flatten",
            &[format!("(run-schedule (run {r0}) (run {r1}) (repeat 2 (run {r0})))")],
            &[format!("(run-schedule (run {r0}))"), format!("(run-schedule (run {r1}))"), format!("(run {r0} 2)")],
            &mut rep,
        );
        law("combined_eq_union", &["(run comb 1)".to_string()], &["(run all 1)".to_string()], &mut rep);
        law("combined_eq_union_3", &["(run comb 3)".to_string()], &["(run all 3)".to_string()], &mut rep);
        // termination pre-check for the saturate laws, by stepping: the iteration that changes
        // nothing must report updated=false, otherwise (saturate ..) cannot stop
        let mut saturate_terminates = true;
        if all_safe {
            let mut e = base.clone();
            for _ in 0..80 {
                let before = canon(&e);
                match sched_ok(&mut e, &format!("(run-schedule (seq (run {r0}) (run {r1})))")) {
                    Ok(updated) => {
                        let changed = canon(&e) != before;
                        rep.count("termination_precheck_steps", 1);
                        if !changed {
                            if updated {
                                saturate_terminates = false;
                                let replay = format!("{progtext}\n(run-schedule (seq (run {r0}) (run {r1})))   ; repeated until the dump stops changing");
                                rep.violation(
                                    &format!("C10:noop-progress:{}", dump::fnv(&replay)),
                                    "an execution of s that changes nothing reports updated=true, so (saturate s) never stops",
                                    &replay,
                                );
                            }
                            break;
                        }
                    }
                    Err(_) => {
                        saturate_terminates = false;
                        break;
                    }
                }
            }
        }
        if all_safe && saturate_terminates {
            law(
                "saturate_idem",
                &[format!("(run-schedule (saturate (saturate (run {r0}))))")],
                &[format!("(run-schedule (saturate (run {r0})))")],
                &mut rep,
            );
            law(
                "saturate_seq",
                &[format!("(run-schedule (saturate (seq (run {r0}) (run {r1}))))")],
                &[format!("(run-schedule (saturate (run {r0}) (run {r1})))")],
                &mut rep,
            );
            // fixpoint: re-running a saturated schedule changes nothing and reports updated=false
            let mut e = base.clone();
            let s = format!("(run-schedule (saturate (seq (run {r0}) (run {r1}))))");
            if sched_ok(&mut e, &s).is_ok() {
                let d1 = canon(&e);
                let again = format!("(run-schedule (seq (run {r0}) (run {r1})))");
                match sched_ok(&mut e, &again) {
                    Ok(updated) => {
                        let d2 = canon(&e);
                        rep.count("fixpoint_rechecks", 1);
                        if d1 != d2 || updated {
                            let replay = format!("{progtext}\n{s}\n{again}");
                            rep.violation(
                                &format!("C10:fixpoint:{}", dump::fnv(&replay)),
                                &format!("database after (saturate s) is not a fixpoint of s: updated={updated}; {}", first_diff(&d1, &d2)),
                                &replay,
                            );
                        }
                    }
                    Err(e) => rep.inconclusive(&format!("re-run of saturated schedule failed: {e}")),
                }
            }
        }
        // reference scheduler for (run R n): n single steps with early stop on "no change"
        {
            let mut e1 = base.clone();
            let mut e2 = base.clone();
            let k = 1 + rng.below(5);
            let o1 = run::run(&mut e1, &format!("(run {r1} {k})"));
            let mut trace = vec![];
            let mut failed = false;
            for _ in 0..k {
                match step(&mut e2, &r1) {
                    Ok((updated, changed)) => {
                        trace.push((updated, changed));
                        rep.count("single_steps", 1);
                        if changed && !updated {
                            let replay = format!("{progtext}\n; then {} x (run {r1} 1)", trace.len());
                            rep.violation(
                                &format!("C10:missed-progress:{}", dump::fnv(&replay)),
                                "an iteration changed the database but reported updated=false (premature stop)",
                                &replay,
                            );
                        }
                        if updated && !changed {
                            rep.count("updated_true_but_dump_unchanged", 1);
                        }
                        if !changed {
                            break;
                        }
                    }
                    Err(_) => {
                        failed = true;
                        break;
                    }
                }
            }
            if o1.is_ok() && !failed {
                let d1 = canon(&e1);
                let d2 = canon(&e2);
                rep.count("reference_scheduler_runs", 1);
                if d1 != d2 {
                    let replay = format!("{progtext}\n(run {r1} {k})");
                    rep.violation(
                        &format!("C10:run-n:{}", dump::fnv(&replay)),
                        &format!("(run {r1} {k}) differs from {k} single iterations with early stop (trace {trace:?}): {}", first_diff(&d1, &d2)),
                        &replay,
                    );
                }
            }
        }
        // literal reference interpreter for random nested schedules (repeat in seq in repeat ...)
        for k in 0..3 {
            let rs: Vec<String> = sig.rulesets.clone();
            let sched = if k == 0 {
                // the shape in which an inner repeat stops early while the outer one must go on
                let (ri, ro) = if all_safe { (2 + rng.below(4) as u32, 3 + rng.below(6) as u32) } else { (2, 2) };
                let inner: Vec<Sched> = rs.iter().map(|r| Sched::Repeat(ri, vec![Sched::Run(r.clone(), None)])).collect();
                Sched::Repeat(ro, vec![Sched::Seq(inner)])
            } else {
                gen_sched(&mut rng, &rs, 3, all_safe && saturate_terminates)
            };
            // growth guard (deterministic, program-dependent only): rules that build new terms can
            // multiply the database every iteration, so only short schedules are run on them
            if sched_cost(&sched) > if all_safe { 400 } else { 10 } || base.num_tuples() > 400 {
                rep.count("nested_schedules_skipped_growth_guard", 1);
                continue;
            }
            let text = format!("(run-schedule {sched})");
            let mut e1 = base.clone();
            let mut e2 = base.clone();
            let o1 = run::run(&mut e1, &text);
            let mut budget = 400usize;
            let r2 = interp(&mut e2, &sched, &mut budget);
            if e1.num_tuples() > 3000 {
                rep.count("nested_schedules_skipped_large_db", 1);
                continue;
            }
            match (o1.is_ok(), r2) {
                (true, Ok(changed)) => {
                    rep.count("nested_schedules_interpreted", 1);
                    if changed {
                        rep.count("nested_schedules_changing_db", 1);
                    }
                    let d1 = canon(&e1);
                    let d2 = canon(&e2);
                    if d1 != d2 {
                        let replay = format!("{progtext}\n{text}");
                        rep.violation(
                            &format!("C10:nested:{}", dump::fnv(&replay)),
                            &format!("{text} differs from its literal reading (repeat stops early only after an execution of its body that changed nothing; first = engine, second = reference): {}", first_diff(&d1, &d2)),
                            &replay,
                        );
                    } else if changed {
                        rep.nontrivial(&format!("nested|{text}|{d1}"));
                    }
                }
                (_, Err(e)) if e == "budget" => rep.count("nested_schedules_budget_exhausted", 1),
                _ => rep.count("nested_schedules_failed", 1),
            }
        }
        // :until
        {
            let facts = g.check_fact(&mut rng);
            let ftxt = facts.iter().map(|f| f.to_string()).collect::<Vec<_>>().join(" ");
            let k = 1 + rng.below(4);
            let mut e1 = base.clone();
            let mut e2 = base.clone();
            let o1 = run::run(&mut e1, &format!("(run {r0} {k} :until {ftxt})"));
            let mut failed = false;
            for _ in 0..k {
                match run::check(&mut e2, &ftxt) {
                    Ok(true) => break,
                    Ok(false) => {}
                    Err(_) => {
                        failed = true;
                        break;
                    }
                }
                match step(&mut e2, &r0) {
                    Ok((_, changed)) => {
                        if !changed {
                            break;
                        }
                    }
                    Err(_) => {
                        failed = true;
                        break;
                    }
                }
            }
            if o1.is_ok() && !failed {
                rep.count("until_runs", 1);
                let d1 = canon(&e1);
                let d2 = canon(&e2);
                if d1 != d2 {
                    let replay = format!("{progtext}\n(run {r0} {k} :until {ftxt})");
                    rep.violation(
                        &format!("C10:until:{}", dump::fnv(&replay)),
                        &format!(":until differs from check-then-step reference: {}", first_diff(&d1, &d2)),
                        &replay,
                    );
                }
            }
        }
        if case < 2 {
            rep.sample(json!({"program": prog, "laws": ["run_n_eq_repeat", "repeat_mul", "seq_assoc", "seq_flatten", "combined_eq_union", "saturate_idem", "fixpoint", "reference scheduler", ":until"]}));
        }
    }
    rep
}
