//! relmon — C16: the table store behaves like a keyed map with timestamp-ordered scans.
//!
//! Model-based sequence checking at EVERY step, through core-relations' public API only:
//! random operation sequences on a `Database` holding `SortedWritesTable`s (0..4 key
//! columns, with / without sort column, three merge functions) and a `DisplacedTable`,
//! compared with a `BTreeMap<key, row>` model. Operations: staged inserts / removals through
//! several buffers dropped in random order, merge_all / merge_table, clear_table,
//! value-level rebuild against the union-find table, clone-and-diverge. Reads after every
//! operation: len, get_row (present and absent keys), full scan (each live row once),
//! constrained refine + scan (Eq, EqConst, Lt/Le/Gt/Ge on the sort column and on others),
//! fast_subset on the sort column, updates_since, and index-backed one- and two-atom rule-set
//! queries whose plans are built once and re-run after later merges / compactions.
#[path = "../../eggmon/src/rng.rs"]
mod rng;

use egglog_core_relations::{AtomId, CachedPlan, ColumnId, Constraint, Database, DisplacedTable, ExternalFunctionId, MutationBuffer, QueryEntry, SortedWritesTable, TableId, Value, make_external_func};
use egglog_numeric_id::NumericId;
use egglog_reports::ReportLevel;
use rng::Rng;
use serde_json::json;
use std::collections::{BTreeMap, BTreeSet};
use std::sync::{Arc, Mutex};

#[derive(Clone, Copy, Debug, PartialEq, Eq)]
enum MergeKind {
    /// replace when the value differs
    Last,
    /// keep the smaller value
    Min,
    /// never replace
    KeepOld,
}

#[derive(Clone, Debug)]
struct Cfg {
    n_keys: usize,
    /// columns: keys, one value column, optional timestamp column (the sort column)
    has_ts: bool,
    rebuild: Vec<usize>,
    merge: MergeKind,
}

impl Cfg {
    fn n_cols(&self) -> usize {
        self.n_keys + 1 + self.has_ts as usize
    }
    fn vcol(&self) -> usize {
        self.n_keys
    }
}

type Row = Vec<u32>;

#[derive(Clone, Debug, Default)]
struct ModelTable {
    rows: BTreeMap<Vec<u32>, Row>,
    staged_rm: Vec<Vec<u32>>,
    staged_ins: Vec<Row>,
}

fn merge_model(cfg: &Cfg, old: &Row, new: &Row) -> Option<Row> {
    let v = cfg.vcol();
    match cfg.merge {
        MergeKind::Last => (old[v] != new[v]).then(|| new.clone()),
        MergeKind::Min => (new[v] < old[v]).then(|| new.clone()),
        MergeKind::KeepOld => None,
    }
}

impl ModelTable {
    fn merge(&mut self, cfg: &Cfg) {
        for k in self.staged_rm.drain(..) {
            self.rows.remove(&k);
        }
        let ins: Vec<Row> = self.staged_ins.drain(..).collect();
        for r in ins {
            let k = r[..cfg.n_keys].to_vec();
            match self.rows.get(&k) {
                None => {
                    self.rows.insert(k, r);
                }
                Some(old) => {
                    if let Some(m) = merge_model(cfg, old, &r) {
                        self.rows.insert(k, m);
                    }
                }
            }
        }
    }
}

#[derive(Clone)]
struct World {
    db: Database,
    tabs: Vec<TableId>,
    uf: TableId,
    model: Vec<ModelTable>,
    /// model union-find (leader = minimum)
    parent: Vec<u32>,
    ts: u32,
}

fn find(p: &[u32], mut x: u32) -> u32 {
    while p[x as usize] != x {
        x = p[x as usize];
    }
    x
}

fn val(x: u32) -> Value {
    Value::new(x)
}

struct Report {
    evaluations: u64,
    distinct: BTreeSet<u64>,
    counters: BTreeMap<String, u64>,
    violations: Vec<serde_json::Value>,
    inconclusive: Vec<String>,
    samples: Vec<serde_json::Value>,
}

fn fnv(s: &str) -> u64 {
    let mut h: u64 = 0xcbf29ce484222325;
    for b in s.as_bytes() {
        h ^= *b as u64;
        h = h.wrapping_mul(0x100000001b3);
    }
    h
}

impl Report {
    fn count(&mut self, k: &str, n: u64) {
        *self.counters.entry(k.to_string()).or_insert(0) += n;
    }
}

const DOM: u32 = 12;

fn make_world(cfgs: &[Cfg]) -> World {
    let mut db = Database::default();
    let uf = db.add_table(DisplacedTable::default(), std::iter::empty(), std::iter::empty());
    let mut tabs = vec![];
    for c in cfgs {
        let cfg = c.clone();
        let t = SortedWritesTable::new(
            c.n_keys,
            c.n_cols(),
            c.has_ts.then(|| ColumnId::from_usize(c.n_cols() - 1)),
            c.rebuild.iter().map(|i| ColumnId::from_usize(*i)).collect(),
            Box::new(move |_state, old, new, out| {
                let v = cfg.vcol();
                let take = match cfg.merge {
                    MergeKind::Last => old[v] != new[v],
                    MergeKind::Min => new[v] < old[v],
                    MergeKind::KeepOld => false,
                };
                if take {
                    out.extend_from_slice(new);
                }
                take
            }),
        );
        tabs.push(db.add_table(t, std::iter::empty(), std::iter::empty()));
    }
    World { db, tabs, uf, model: vec![ModelTable::default(); cfgs.len()], parent: (0..DOM * 4).collect(), ts: 1 }
}

/// rows of a scan as a sorted multiset
fn scan_rows(w: &World, t: usize, cs: &[Constraint]) -> Vec<Row> {
    let table = w.db.get_table(w.tabs[t]);
    let all = table.all();
    let sub = if cs.is_empty() { all } else { table.refine(all, cs) };
    let buf = table.scan(sub.as_ref());
    let mut out: Vec<Row> = buf.iter().map(|(_, r)| r.iter().map(|v| v.rep()).collect()).collect();
    out.sort();
    out
}

fn holds(c: &Constraint, r: &Row) -> bool {
    match c {
        Constraint::Eq { l_col, r_col } => r[l_col.index()] == r[r_col.index()],
        Constraint::EqConst { col, val } => r[col.index()] == val.rep(),
        Constraint::LtConst { col, val } => r[col.index()] < val.rep(),
        Constraint::GtConst { col, val } => r[col.index()] > val.rep(),
        Constraint::LeConst { col, val } => r[col.index()] <= val.rep(),
        Constraint::GeConst { col, val } => r[col.index()] >= val.rep(),
    }
}

fn gen_constraint(rng: &mut Rng, cfg: &Cfg, ts: u32) -> Constraint {
    let ncols = cfg.n_cols();
    let col = if cfg.has_ts && rng.chance(1, 2) { ncols - 1 } else { rng.below(ncols) };
    let c = ColumnId::from_usize(col);
    let v = if cfg.has_ts && col == ncols - 1 { val(rng.below(ts as usize + 2) as u32) } else { val(rng.below(DOM as usize) as u32) };
    match rng.below(7) {
        0 if ncols >= 2 => Constraint::Eq { l_col: c, r_col: ColumnId::from_usize(rng.below(ncols)) },
        1 | 0 => Constraint::EqConst { col: c, val: v },
        2 => Constraint::LtConst { col: c, val: v },
        3 => Constraint::GtConst { col: c, val: v },
        4 => Constraint::LeConst { col: c, val: v },
        _ => Constraint::GeConst { col: c, val: v },
    }
}

struct Queries {
    /// plans compiled once (at "build queries" time) and re-instantiated before every run, the way
    /// egglog-bridge does: RuleSets are one-shot, CachedPlans are long-lived
    plans: Vec<(CachedPlan, QSpec, Vec<AtomId>)>,
    sink: Arc<Mutex<Vec<(u32, Vec<u32>)>>>,
}

#[derive(Clone, Debug)]
enum QSpec {
    One { t: usize, cs: Vec<Constraint> },
    /// join t1.col1 = t2.col2
    Two { t1: usize, c1: usize, t2: usize, c2: usize, cs1: Vec<Constraint> },
}

fn build_queries(w: &mut World, cfgs: &[Cfg], rng: &mut Rng) -> Queries {
    let sink: Arc<Mutex<Vec<(u32, Vec<u32>)>>> = Arc::new(Mutex::new(vec![]));
    let mut specs = vec![];
    let mut funcs: Vec<ExternalFunctionId> = vec![];
    let nq = 2 + rng.below(3);
    for qi in 0..nq {
        let s = sink.clone();
        let id = qi as u32;
        funcs.push(w.db.add_external_function(Box::new(make_external_func(move |_st, args| {
            s.lock().unwrap().push((id, args.iter().map(|v| v.rep()).collect()));
            Some(Value::new(0))
        }))));
    }
    let ts = w.ts;
    let tabs = w.tabs.clone();
    let mut rsb = w.db.new_rule_set();
    let mut ids = vec![];
    for qi in 0..nq {
        let t = rng.below(cfgs.len());
        let cfg = &cfgs[t];
        if rng.chance(1, 2) || cfgs.len() < 2 {
            let cs: Vec<Constraint> = (0..rng.below(3)).map(|_| gen_constraint(rng, cfg, ts + 6)).collect();
            let mut qb = rsb.new_rule();
            let vars: Vec<QueryEntry> = (0..cfg.n_cols()).map(|_| qb.new_var().into()).collect();
            let a = qb.add_atom(tabs[t], &vars, cs.iter()).unwrap();
            let mut rb = qb.build();
            rb.call_external(funcs[qi], &vars).unwrap();
            ids.push((rb.build_with_description(format!("q{qi}")), vec![a]));
            specs.push(QSpec::One { t, cs });
        } else {
            let t2 = rng.below(cfgs.len());
            let cfg2 = &cfgs[t2];
            let (c1, c2) = (rng.below(cfg.n_cols().min(cfg.n_keys + 1)), rng.below(cfg2.n_cols().min(cfg2.n_keys + 1)));
            let cs1: Vec<Constraint> = (0..rng.below(2)).map(|_| gen_constraint(rng, cfg, ts + 6)).collect();
            let mut qb = rsb.new_rule();
            let v1: Vec<QueryEntry> = (0..cfg.n_cols()).map(|_| qb.new_var().into()).collect();
            let mut v2: Vec<QueryEntry> = (0..cfg2.n_cols()).map(|_| qb.new_var().into()).collect();
            v2[c2] = v1[c1].clone();
            let a1 = qb.add_atom(tabs[t], &v1, cs1.iter()).unwrap();
            let a2 = qb.add_atom(tabs[t2], &v2, std::iter::empty()).unwrap();
            let mut rb = qb.build();
            let mut args = v1.clone();
            args.extend(v2.iter().cloned());
            rb.call_external(funcs[qi], &args).unwrap();
            ids.push((rb.build_with_description(format!("q{qi}")), vec![a1, a2]));
            specs.push(QSpec::Two { t1: t, c1, t2, c2, cs1 });
        }
    }
    let rule_set = rsb.build();
    let plans = ids.into_iter().zip(specs).map(|((rid, atoms), spec)| (rule_set.build_cached_plan(rid), spec, atoms)).collect();
    Queries { plans, sink }
}

fn expected_query(w: &World, q: &QSpec) -> Vec<Vec<u32>> {
    let mut out = vec![];
    match q {
        QSpec::One { t, cs } => {
            for r in w.model[*t].rows.values() {
                if cs.iter().all(|c| holds(c, r)) {
                    out.push(r.clone());
                }
            }
        }
        QSpec::Two { t1, c1, t2, c2, cs1 } => {
            for r1 in w.model[*t1].rows.values() {
                if !cs1.iter().all(|c| holds(c, r1)) {
                    continue;
                }
                for r2 in w.model[*t2].rows.values() {
                    if r1[*c1] == r2[*c2] {
                        let mut r = r1.clone();
                        r.extend(r2.iter().copied());
                        out.push(r);
                    }
                }
            }
        }
    }
    out.sort();
    out
}

fn check_all(w: &mut World, cfgs: &[Cfg], rng: &mut Rng, q: Option<&Queries>, rep: &mut Report, hist: &[String]) -> Option<String> {
    for (t, cfg) in cfgs.iter().enumerate() {
        let table = w.db.get_table(w.tabs[t]);
        let m = &w.model[t];
        // len
        rep.count("reads", 1);
        if table.len() != m.rows.len() {
            return Some(format!("table {t}: len() = {}, model has {} rows", table.len(), m.rows.len()));
        }
        // full scan: every live row exactly once
        let got = scan_rows(w, t, &[]);
        let want: Vec<Row> = {
            let mut v: Vec<Row> = m.rows.values().cloned().collect();
            v.sort();
            v
        };
        rep.count("reads", 1);
        if got != want {
            return Some(format!("table {t}: full scan returned {} rows {:?}..., model {} rows {:?}...", got.len(), got.iter().take(4).collect::<Vec<_>>(), want.len(), want.iter().take(4).collect::<Vec<_>>()));
        }
        // point lookups
        for _ in 0..4 {
            let key: Vec<u32> = if !m.rows.is_empty() && rng.chance(1, 2) { m.rows.keys().nth(rng.below(m.rows.len())).unwrap().clone() } else { (0..cfg.n_keys).map(|_| rng.below(DOM as usize) as u32).collect() };
            let kv: Vec<Value> = key.iter().map(|x| val(*x)).collect();
            let got = table.get_row(&kv).map(|r| r.vals.iter().map(|v| v.rep()).collect::<Vec<u32>>());
            rep.count("reads", 1);
            if got.as_ref() != m.rows.get(&key) {
                return Some(format!("table {t}: get_row({key:?}) = {got:?}, model {:?}", m.rows.get(&key)));
            }
        }
        // constrained scans
        for _ in 0..3 {
            let cs: Vec<Constraint> = (0..1 + rng.below(2)).map(|_| gen_constraint(rng, cfg, w.ts)).collect();
            let got = scan_rows(w, t, &cs);
            let want: Vec<Row> = want.iter().filter(|r| cs.iter().all(|c| holds(c, r))).cloned().collect();
            rep.count("reads", 1);
            rep.count("constrained_scans", 1);
            if got != want {
                return Some(format!("table {t}: scan under {cs:?} returned {got:?}, model {want:?}"));
            }
            // fast_subset
            if let Some(sub) = table.fast_subset(&cs[0]) {
                let buf = table.scan(sub.as_ref());
                let mut rows: Vec<Row> = buf.iter().map(|(_, r)| r.iter().map(|v| v.rep()).collect()).collect();
                rows.sort();
                let want1: Vec<Row> = m.rows.values().filter(|r| holds(&cs[0], r)).cloned().collect::<BTreeSet<_>>().into_iter().collect();
                rep.count("fast_subsets", 1);
                if rows != want1 {
                    return Some(format!("table {t}: fast_subset({:?}) scans to {rows:?}, model {want1:?}", cs[0]));
                }
            }
        }
    }
    // union-find table: lookups agree with the model partition
    {
        let table = w.db.get_table(w.uf);
        for x in 0..DOM {
            let got = table.get_row(&[val(x)]).map(|r| r.vals[1].rep());
            let leader = find(&w.parent, x);
            let want = (leader != x).then_some(leader);
            rep.count("reads", 1);
            if got != want {
                return Some(format!("union-find table: id {x} maps to {got:?}, model leader {want:?}"));
            }
        }
    }
    let _ = q;
    None
}

/// index-backed queries: plans compiled earlier are re-instantiated against the current database
/// (with fresh extra constraints on the first atom, e.g. timestamp ranges) and run
fn check_queries(w: &mut World, cfgs: &[Cfg], rng: &mut Rng, q: Option<&Queries>, rep: &mut Report) -> Option<String> {
    if let Some(q) = q {
        q.sink.lock().unwrap().clear();
        let mut specs: Vec<(QSpec, bool)> = vec![];
        let ts = w.ts;
        let mut rsb = w.db.new_rule_set();
        for (plan, spec, atoms) in &q.plans {
            let t = match spec {
                QSpec::One { t, .. } => *t,
                QSpec::Two { t1, .. } => *t1,
            };
            // extra constraints on a cached plan must have a fast pushdown: comparisons on the sort column
            let extra: Vec<Constraint> = if cfgs[t].has_ts && rng.chance(2, 3) {
                let col = ColumnId::from_usize(cfgs[t].n_cols() - 1);
                let v = val(rng.below(ts as usize + 2) as u32);
                vec![match rng.below(5) {
                    0 => Constraint::EqConst { col, val: v },
                    1 => Constraint::LtConst { col, val: v },
                    2 => Constraint::GtConst { col, val: v },
                    3 => Constraint::LeConst { col, val: v },
                    _ => Constraint::GeConst { col, val: v },
                }]
            } else {
                vec![]
            };
            let ex: Vec<(AtomId, Constraint)> = extra.iter().map(|c| (atoms[0], c.clone())).collect();
            let added = rsb.add_rule_from_cached_plan(plan, &ex).is_some();
            let spec = match spec {
                QSpec::One { t, cs } => QSpec::One { t: *t, cs: cs.iter().chain(extra.iter()).cloned().collect() },
                QSpec::Two { t1, c1, t2, c2, cs1 } => QSpec::Two { t1: *t1, c1: *c1, t2: *t2, c2: *c2, cs1: cs1.iter().chain(extra.iter()).cloned().collect() },
            };
            specs.push((spec, added));
        }
        let rule_set = rsb.build();
        w.db.run_rule_set(&rule_set, ReportLevel::TimeOnly, None);
        let all = q.sink.lock().unwrap().clone();
        for (qi, (spec, added)) in specs.iter().enumerate() {
            let mut got: Vec<Vec<u32>> = all.iter().filter(|(i, _)| *i == qi as u32).map(|(_, r)| r.clone()).collect();
            got.sort();
            let want = expected_query(w, spec);
            rep.count("reads", 1);
            rep.count("rule_set_queries", 1);
            if !want.is_empty() {
                rep.count("rule_set_queries_nonempty", 1);
            }
            if !added {
                rep.count("rule_set_queries_pruned_as_empty", 1);
            }
            if got != want {
                return Some(format!("rule-set query {spec:?}{} returned {} rows {:?}..., model {} rows {:?}...", if *added { "" } else { " (pruned as provably empty)" }, got.len(), got.iter().take(4).collect::<Vec<_>>(), want.len(), want.iter().take(4).collect::<Vec<_>>()));
            }
        }
    }
    None
}

fn main() {
    let argv: Vec<String> = std::env::args().collect();
    let mut seed = 1u64;
    let mut n = 300u64;
    let mut out = String::new();
    let mut ops_per = 60usize;
    let mut threads = 1usize;
    let mut i = 2;
    while i + 1 < argv.len() {
        match argv[i].as_str() {
            "--seed" => seed = argv[i + 1].parse().unwrap(),
            "--n" => n = argv[i + 1].parse().unwrap(),
            "--out" => out = argv[i + 1].clone(),
            "--ops" => ops_per = argv[i + 1].parse().unwrap(),
            "--threads" => threads = argv[i + 1].parse().unwrap(),
            _ => {}
        }
        i += 2;
    }
    let mut rep = Report { evaluations: 0, distinct: BTreeSet::new(), counters: BTreeMap::new(), violations: vec![], inconclusive: vec![], samples: vec![] };
    let body = |rep: &mut Report| {
        let root = Rng::new(seed);
        let only: Option<u64> = std::env::var("RELMON_ONLY").ok().and_then(|s| s.parse().ok());
        for case in 0..n {
            if only.is_some() && only != Some(case) {
                continue;
            }
            let mut rng = root.fork(case);
            let ntab = 1 + rng.below(3);
            let cfgs: Vec<Cfg> = (0..ntab)
                .map(|_| {
                    let n_keys = rng.below(5);
                    let has_ts = rng.chance(3, 4);
                    // rebuilt tables need a commutative merge (the order of re-insertions is not specified)
                    let rebuild: Vec<usize> = if rng.chance(1, 2) { (0..=n_keys).filter(|_| rng.chance(1, 2)).collect() } else { vec![] };
                    let merge = if !rebuild.is_empty() { MergeKind::Min } else { *rng.pick(&[MergeKind::Last, MergeKind::Min, MergeKind::KeepOld]) };
                    Cfg { n_keys, has_ts, rebuild, merge }
                })
                .collect();
            let mut w = make_world(&cfgs);
            let mut queries: Option<Queries> = None;
            let mut hist: Vec<String> = vec![format!("tables: {cfgs:?}")];
            let mut buffers: Vec<(usize, Box<dyn MutationBuffer>)> = vec![];
            let mut staged_keys: Vec<BTreeSet<Vec<u32>>> = vec![BTreeSet::new(); ntab];
            let mut crossed_compaction = false;
            let mut snapshot: Option<(usize, egglog_core_relations::TableVersion, BTreeMap<Vec<u32>, Row>)> = None;
            let mut failed = false;
            for step in 0..ops_per {
                let op = rng.weighted(&[10, 4, 6, 1, 3, 2, 2, 2]);
                match op {
                    0 | 1 => {
                        // stage inserts / removals through a (possibly new) buffer
                        let t = rng.below(ntab);
                        let cfg = &cfgs[t];
                        if buffers.len() < 3 && rng.chance(1, 2) || buffers.iter().all(|b| b.0 != t) {
                            buffers.push((t, w.db.new_buffer(w.tabs[t])));
                        }
                        let bi = buffers.iter().position(|b| b.0 == t).unwrap();
                        let burst = if rng.chance(1, 6) { 40 } else { 5 };
                        let k = 1 + rng.below(burst);
                        for _ in 0..k {
                            let dom = if cfg.n_keys <= 1 { DOM * 3 } else { DOM };
                            let key: Vec<u32> = (0..cfg.n_keys).map(|_| rng.below(dom as usize) as u32).collect();
                            if op == 0 {
                                if cfg.merge != MergeKind::Min && !staged_keys[t].insert(key.clone()) {
                                    continue; // non-commutative merge: one write per key per round
                                }
                                let mut row = key.clone();
                                row.push(rng.below(DOM as usize) as u32);
                                if cfg.has_ts {
                                    row.push(w.ts);
                                }
                                let vals: Vec<Value> = row.iter().map(|x| val(*x)).collect();
                                buffers[bi].1.stage_insert(&vals);
                                w.model[t].staged_ins.push(row.clone());
                                hist.push(format!("stage_insert t{t} {row:?}"));
                            } else {
                                let key = if !w.model[t].rows.is_empty() && rng.chance(2, 3) { w.model[t].rows.keys().nth(rng.below(w.model[t].rows.len())).unwrap().clone() } else { key };
                                let vals: Vec<Value> = key.iter().map(|x| val(*x)).collect();
                                buffers[bi].1.stage_remove(&vals);
                                w.model[t].staged_rm.push(key.clone());
                                hist.push(format!("stage_remove t{t} {key:?}"));
                            }
                        }
                        rep.count("staged_writes", k as u64);
                        continue; // nothing visible yet
                    }
                    2 => {
                        // drop buffers in random order, merge
                        rng.shuffle(&mut buffers);
                        buffers.clear();
                        let before: Vec<usize> = (0..ntab).map(|t| w.model[t].rows.len() + w.model[t].staged_ins.len()).collect();
                        if rng.chance(1, 4) && ntab > 0 {
                            let t = rng.below(ntab);
                            w.db.merge_table(w.tabs[t]);
                            w.model[t].merge(&cfgs[t]);
                            staged_keys[t].clear();
                            hist.push(format!("merge_table t{t}"));
                        } else {
                            w.db.merge_all();
                            for t in 0..ntab {
                                w.model[t].merge(&cfgs[t]);
                                staged_keys[t].clear();
                            }
                            hist.push("merge_all".into());
                            // one timestamp per merge round: all rows pending in a round share a sort key
                            // (the parallel insert path requires it), so the clock only advances when
                            // nothing is pending any more
                            w.ts += 1;
                        }
                        rep.count("merges", 1);
                        let _ = before;
                    }
                    3 => {
                        buffers.clear();
                        let t = rng.below(ntab);
                        w.db.clear_table(w.tabs[t]);
                        w.model[t] = ModelTable::default();
                        staged_keys[t].clear();
                        hist.push(format!("clear_table t{t}"));
                        rep.count("clears", 1);
                    }
                    4 => {
                        // union some ids, then value-level rebuild of the tables that opted in
                        buffers.clear();
                        w.db.merge_all();
                        for t in 0..ntab {
                            w.model[t].merge(&cfgs[t]);
                            staged_keys[t].clear();
                        }
                        let nun = 1 + rng.below(3);
                        {
                            let mut b = w.db.new_buffer(w.uf);
                            for _ in 0..nun {
                                let (x, y) = (rng.below(DOM as usize) as u32, rng.below(DOM as usize) as u32);
                                b.stage_insert(&[val(x), val(y), val(w.ts)]);
                                let (rx, ry) = (find(&w.parent, x), find(&w.parent, y));
                                if rx != ry {
                                    w.parent[rx.max(ry) as usize] = rx.min(ry);
                                }
                                hist.push(format!("union {x} {y}"));
                            }
                        }
                        w.db.merge_all();
                        w.ts += 1;
                        let to_rebuild: Vec<TableId> = (0..ntab).filter(|t| !cfgs[*t].rebuild.is_empty()).map(|t| w.tabs[t]).collect();
                        let next_ts = val(w.ts);
                        w.db.apply_rebuild(w.uf, &to_rebuild, next_ts);
                        for t in 0..ntab {
                            let cfg = &cfgs[t];
                            if cfg.rebuild.is_empty() {
                                continue;
                            }
                            let old: Vec<Row> = w.model[t].rows.values().cloned().collect();
                            let mut moved = vec![];
                            for r in old {
                                let mut nr = r.clone();
                                for c in &cfg.rebuild {
                                    nr[*c] = find(&w.parent, nr[*c]);
                                }
                                if nr != r {
                                    if cfg.has_ts {
                                        let l = nr.len() - 1;
                                        nr[l] = w.ts;
                                    }
                                    w.model[t].rows.remove(&r[..cfg.n_keys].to_vec());
                                    moved.push(nr);
                                }
                            }
                            w.model[t].staged_ins.extend(moved);
                            w.model[t].merge(cfg);
                        }
                        w.ts += 1;
                        hist.push("apply_rebuild".into());
                        rep.count("rebuilds", 1);
                    }
                    5 => {
                        // clone and keep working on the clone (the original is dropped)
                        buffers.clear();
                        w.db.merge_all();
                        for t in 0..ntab {
                            w.model[t].merge(&cfgs[t]);
                            staged_keys[t].clear();
                        }
                        let w2 = w.clone();
                        if rng.chance(1, 2) {
                            // diverge the original first, then check the clone is unaffected
                            let t = rng.below(ntab);
                            {
                                let mut b = w.db.new_buffer(w.tabs[t]);
                                let row: Vec<Value> = (0..cfgs[t].n_cols()).map(|i| if cfgs[t].has_ts && i == cfgs[t].n_cols() - 1 { val(w.ts) } else { val(rng.below(DOM as usize) as u32) }).collect();
                                b.stage_insert(&row);
                            }
                            w.db.merge_all();
                        }
                        w = w2;
                        hist.push("clone; continue on the clone".into());
                        rep.count("clones", 1);
                    }
                    6 => {
                        // (re)build the rule-set queries: plans and indexes are created now and reused later
                        if queries.is_none() || rng.chance(1, 3) {
                            queries = Some(build_queries(&mut w, &cfgs, &mut rng));
                            hist.push(format!("build queries {:?}", queries.as_ref().unwrap().plans.iter().map(|p| p.1.clone()).collect::<Vec<_>>()));
                        }
                    }
                    _ => {
                        // updates_since snapshot / check
                        let t = rng.below(ntab);
                        let table = w.db.get_table(w.tabs[t]);
                        match &snapshot {
                            Some((st, ver, rows)) if *st == t => {
                                let now = table.version();
                                if now.major == ver.major {
                                    let sub = table.updates_since(ver.minor);
                                    let buf = table.scan(sub.as_ref());
                                    let got: BTreeSet<Row> = buf.iter().map(|(_, r)| r.iter().map(|v| v.rep()).collect()).collect();
                                    // every row that is live now and was not there (or differed) at the snapshot
                                    for (k, r) in &w.model[t].rows {
                                        if rows.get(k) != Some(r) && !got.contains(r) {
                                            rep.violations.push(json!({"sig": format!("C16:{}", fnv(&hist.join("\n"))), "detail": format!("updates_since misses row {r:?} written after the snapshot"), "replay": hist.join("\n")}));
                                            failed = true;
                                        }
                                    }
                                    for r in &got {
                                        if w.model[t].rows.get(&r[..cfgs[t].n_keys].to_vec()) != Some(r) {
                                            rep.violations.push(json!({"sig": format!("C16:{}", fnv(&hist.join("\n"))), "detail": format!("updates_since returns {r:?}, which is not a live row"), "replay": hist.join("\n")}));
                                            failed = true;
                                        }
                                    }
                                    rep.count("updates_since_checks", 1);
                                } else {
                                    crossed_compaction = true;
                                    rep.count("generation_bumps_observed", 1);
                                }
                                snapshot = None;
                            }
                            _ => snapshot = Some((t, table.version(), w.model[t].rows.clone())),
                        }
                    }
                }
                if failed {
                    break;
                }
                if only.is_some() {
                    eprintln!("step {step}: {} | lens {:?} model {:?}", hist.last().unwrap(), (0..ntab).map(|t| w.db.get_table(w.tabs[t]).len()).collect::<Vec<_>>(), (0..ntab).map(|t| w.model[t].rows.len()).collect::<Vec<_>>());
                }
                rep.count("steps_checked", 1);
                // Protocol: a buffer obtained from Database::new_buffer marks its table as changed for
                // the NEXT merge only, so buffers are never kept open across a merge (run_rule_set
                // merges at its end). Drop them before anything that may merge.
                buffers.clear();
                let mut why = check_all(&mut w, &cfgs, &mut rng, queries.as_ref(), rep, &hist);
                if why.is_none() && queries.is_some() {
                    if w.model.iter().any(|m| !m.staged_ins.is_empty() || !m.staged_rm.is_empty()) {
                        // pending writes of other tables would be merged by run_rule_set's own merge_all
                        w.db.merge_all();
                        for t in 0..ntab {
                            w.model[t].merge(&cfgs[t]);
                            staged_keys[t].clear();
                        }
                        w.ts += 1;
                        hist.push("merge_all (before queries)".into());
                    }
                    why = check_queries(&mut w, &cfgs, &mut rng, queries.as_ref(), rep);
                }
                if let Some(why) = why {
                    let replay = hist.join("\n");
                    rep.violations.push(json!({"sig": format!("C16:{}", fnv(&replay)), "detail": format!("case {case}, after step {step} ({}): {why}", hist.last().unwrap()), "replay": replay}));
                    failed = true;
                    break;
                }
            }
            drop(buffers);
            rep.evaluations += 1;
            let total: usize = w.model.iter().map(|m| m.rows.len()).sum();
            if total > 0 && !failed {
                rep.distinct.insert(fnv(&format!("{:?}", w.model.iter().map(|m| &m.rows).collect::<Vec<_>>())));
            }
            if crossed_compaction {
                rep.count("sequences_crossing_generation_bump", 1);
            }
            if case < 2 {
                rep.samples.push(json!({"ops": hist.iter().take(60).collect::<Vec<_>>()}));
            }
        }
    };
    if threads > 1 {
        let pool = egglog_concurrency::ThreadPool::new(threads);
        pool.install(|| body(&mut rep));
    } else {
        body(&mut rep);
    }
    for (name, v) in egglog_core_relations::verif::snapshot() {
        if v > 0 {
            rep.count(&format!("path:{name}"), v);
        }
    }
    let j = json!({
        "property": "C16",
        "evaluations": rep.evaluations,
        "distinct": rep.distinct.iter().collect::<Vec<_>>(),
        "rule": "random operation sequences (staged inserts/removals through several buffers, merge_all/merge_table, clear, union + value-level rebuild, clone-and-continue, rule-set queries built once and re-run) on 1-3 SortedWritesTables (0..4 keys, with/without sort column, merge = last/min/keep-old) plus the union-find table, compared after every visible step with a BTreeMap model: len, full scan, get_row, constrained scans, fast_subset, updates_since, index-backed 1- and 2-atom queries. Non-trivial = sequence ending with a non-empty table; distinct by final model contents.",
        "samples": rep.samples,
        "counters": rep.counters,
        "violations": rep.violations,
        "inconclusive": rep.inconclusive,
        "notes": [],
    });
    if out.is_empty() {
        println!("{}", serde_json::to_string_pretty(&j).unwrap());
    } else {
        std::fs::write(&out, serde_json::to_string_pretty(&j).unwrap()).unwrap();
    }
}
