#!/bin/bash
# Run checks of a scratch copy of /verif against a scratch worktree of egglog (a seeded change),
# without touching /repo. usage: mutant_run.sh <worktree> <name> <ID>... ; env TIER=quick|thorough SEED=n
# Output: /tmp/vmut/<name>/<ID>.log ; summary line per check on stdout.
set -u
WT=$1; NAME=$2; shift 2
D=/tmp/vmut/$NAME
mkdir -p $D
rsync -a --delete --exclude .target --exclude .work --exclude .git --exclude replays --exclude evidence /verif/ $D/verif/
mkdir -p $D/verif/evidence
sed -i "s#/repo#$WT#g" $D/verif/harness/Cargo.toml $D/verif/lib/plans.py
sed -i "s#/verif/.target#$D/target#" $D/verif/harness/.cargo/config.toml
sed -i "s#^TARGET = .*#TARGET = \"$D/target\"#" $D/verif/check
cp $WT/Cargo.lock $D/verif/harness/Cargo.lock 2>/dev/null || true
cp /verif/harness/Cargo.lock $D/verif/harness/Cargo.lock
for ID in "$@"; do
  ( cd $D/verif && VERIF_SEED=${SEED:-1} timeout ${TMO:-3600} ./check $ID --tier ${TIER:-quick} > $D/$ID.log 2>&1; echo "exit=$?" >> $D/$ID.log )
  echo "$NAME $ID: $(grep -c '^VIOLATION' $D/$ID.log) violations, $(grep -c '^KNOWN-FINDING' $D/$ID.log) known, $(grep -c '^INCONCLUSIVE' $D/$ID.log) inconclusive, $(tail -1 $D/$ID.log)"
done
