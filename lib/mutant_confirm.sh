#!/bin/bash
# Confirm a sub-agent's seeded change in its worktree: demo fails with the change, passes without,
# and the existing suite passes with it. usage: mutant_confirm.sh <worktree> [demo test name] ; writes <wt>/SEEDED/confirm.log
set -u
WT=$1; cd $WT
L=$WT/SEEDED/confirm.log; : > $L
DEMO_CMD=$(python3 -c "import json;print(json.load(open('$WT/SEEDED/meta.json'))['demo_cmd'])")
echo "demo_cmd: $DEMO_CMD" >> $L
echo "== with change" >> $L
( eval "$DEMO_CMD" ) >> $L 2>&1; echo "demo_with_change_exit=$?" >> $L
git stash push -q -- $(git diff --name-only) >> $L 2>&1
echo "== without change" >> $L
( eval "$DEMO_CMD" ) >> $L 2>&1; echo "demo_without_change_exit=$?" >> $L
git stash pop -q >> $L 2>&1
if [ "${SUITE:-1}" = "1" ]; then
  echo "== suite with change (demo moved aside)" >> $L
  mkdir -p $WT/SEEDED/aside
  for f in $(git status --short | grep '^??' | awk '{print $2}' | grep -v '^SEEDED'); do mv $f $WT/SEEDED/aside/ 2>/dev/null; done
  CARGO_NET_OFFLINE=true nice cargo nextest run --workspace --no-fail-fast --offline --test-threads ${THREADS:-8} 2>&1 | tail -40 >> $L
  echo "suite_exit=${PIPESTATUS[0]}" >> $L
fi
grep -E "demo_with|demo_without|suite_exit|Summary" $L
