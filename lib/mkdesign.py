#!/usr/bin/env python3
"""Insert lib/design_sec0.md (with the seeded-change table built from seeded/*/meta.json) into DESIGN.md as section 0."""
import json, os, glob
V = os.path.dirname(os.path.dirname(os.path.abspath(__file__)))
sec = open(os.path.join(V, "lib", "design_sec0.md")).read()
rows = ["| seeded change | breaks | needs, to manifest | caught by (quick tier, seed 1) | missed by | history |", "|---|---|---|---|---|---|"]
for m in sorted(glob.glob(os.path.join(V, "seeded", "*", "meta.json"))):
    d = json.load(open(m))
    name = os.path.basename(os.path.dirname(m))
    rows.append("| %s: %s | %s | %s | %s | %s | %s |" % (name, d.get("summary", "")[:260].replace("|", "/").replace("\n", " "), d.get("property", ""), d.get("needs", "")[:200].replace("|", "/").replace("\n", " "),
                                                  ", ".join(d.get("caught_by", [])) or "—", ", ".join(d.get("missed_by", [])) or "—", d.get("note", "caught as first run").replace("|", "/")))
sec = sec.replace("SEEDED_TABLE_PLACEHOLDER", "\n".join(rows))
p = os.path.join(V, "DESIGN.md")
s = open(p).read()
a = s.find("## 0. As built (authoritative)")
b = s.find("## 1. What this family can and cannot reach here")
bar = "-" * 80 + "\n\n"
if a >= 0:
    s = s[:a] + sec + "\n" + bar + s[b:]
else:
    s = s[:b] + sec + "\n" + bar + s[b:]
open(p, "w").write(s)
print("DESIGN.md section 0 updated:", len(rows) - 2, "seeded changes")
