#!/usr/bin/env python3
"""Run ONE Miri test of harness/concmon (one scenario family, one VERIF_SEED, one
Miri scheduler seed) and convert Miri's verdict into the child-report JSON the
driver merges. usage: miri_job.py <package> <test-binary> <test-name> <verif-seed> <miri-seed> <out.json> <prop>"""
import json
import os
import re
import subprocess
import sys
import time

VERIF = os.path.dirname(os.path.dirname(os.path.abspath(__file__)))


def classify(text, prop):
    """Return (sig, detail) for a Miri UB / data-race report."""
    m = re.search(r"error: Undefined Behavior: (.*)", text)
    head = m.group(1) if m else "unknown Miri error"
    frames = re.findall(r"at (/repo/[^\s:]+|[a-z]+/src/[^\s:]+|concmon/[^\s:]+):(\d+)", text)
    inrepo = [f"{f.replace('/repo/', '')}:{l}" for f, l in frames if f.startswith("/repo/")]
    kind = "data-race" if "Data race" in head else "ub"
    if kind == "data-race" and "deallocation" in head and "egglog_concurrency::ReadToken" in text:
        return f"{prop}:miri:data-race:ReadToken-read-vs-dealloc", head
    if "witness_pool_drop_aliasing" in text and "ThreadPool as std::ops::Drop" in text:
        return f"{prop}:miri:aliasing:ThreadPool-drop-sender-take", head
    first = inrepo[0] if inrepo else "no-in-repo-frame"
    return f"{prop}:miri:{kind}:{first}", head + " | in-repo frames: " + ", ".join(inrepo[:4])


def main():
    pkg, testbin, test, vseed, mseed, out, prop = sys.argv[1:8]
    # aliasing model: off for the deciding runs (Stacked/Tree Borrows are experimental and
    # reported artifacts on lock-protected Vec headers that neither the data-race detector
    # nor the logical exclusion monitors confirm, see DESIGN.md §5); "tb" for the witness of
    # the ThreadPool::drop finding.
    alias = "-Zmiri-tree-borrows" if (len(sys.argv) > 8 and sys.argv[8] == "tb") else "-Zmiri-disable-stacked-borrows"
    env = dict(os.environ)
    env["CARGO_TARGET_DIR"] = os.path.join(VERIF, ".target", "miri")
    env["CARGO_NET_OFFLINE"] = "true"
    env["VERIF_SEED"] = str(vseed)
    env["MIRIFLAGS"] = f"{alias} -Zmiri-ignore-leaks -Zmiri-env-forward=VERIF_SEED -Zmiri-seed={mseed}"
    env.pop("RUSTFLAGS", None)
    cmd = ["cargo", "+nightly", "miri", "test", "-p", pkg, "--test", testbin, "--offline", "--", "--exact", test, "--include-ignored", "--nocapture"]
    t0 = time.time()
    try:
        r = subprocess.run(cmd, cwd=os.path.join(VERIF, "harness"), env=env, stdout=subprocess.PIPE, stderr=subprocess.STDOUT, text=True, timeout=3000)
        text, code = r.stdout, r.returncode
    except subprocess.TimeoutExpired as e:
        text, code = (e.stdout.decode() if isinstance(e.stdout, bytes) else (e.stdout or "")), "timeout"
    rep = {"property": prop, "evaluations": 0, "distinct": [], "rule": "", "samples": [], "counters": {}, "violations": [], "inconclusive": [], "notes": []}
    ran = re.search(r"test result: ok\. (\d+) passed", text)
    scen = re.findall(r"MIRI-SCENARIO (\S+) evaluations=(\d+)", text)
    if code == 0 and ran and int(ran.group(1)) >= 1:
        rep["evaluations"] = 1
        rep["counters"] = {"miri_executions_clean": 1, "miri_scenarios": sum(int(n) for _, n in scen)}
        rep["distinct"] = [hash((test, vseed, mseed)) & 0x7FFFFFFFFFFF]
    elif "Undefined Behavior" in text:
        sig, detail = classify(text, prop)
        rep["evaluations"] = 1
        rep["counters"] = {"miri_executions_with_report": 1}
        rep["violations"].append({"sig": sig, "detail": f"Miri ({test}, VERIF_SEED={vseed}, -Zmiri-seed={mseed}): {detail}",
                                  "replay": f"cd /verif/harness && CARGO_TARGET_DIR=/verif/.target/miri VERIF_SEED={vseed} MIRIFLAGS='{env['MIRIFLAGS']}' cargo +nightly miri test -p {pkg} --test {testbin} --offline -- --exact {test} --include-ignored --nocapture\n\n" + text[text.find("Undefined Behavior") - 200:][:7000]})
    elif "MIRI-VIOLATION" in text or "panicked at" in text:
        rep["evaluations"] = 1
        m = re.search(r"MIRI-VIOLATION (\S+) sig=(\S+) detail=(.*)", text)
        sig = m.group(2) if m else f"{prop}:miri:assert:{test}"
        rep["violations"].append({"sig": sig, "detail": f"Miri ({test}, VERIF_SEED={vseed}, seed {mseed}): " + (m.group(3) if m else "scenario assertion failed"), "replay": text[-6000:]})
    else:
        rep["inconclusive"].append(f"miri job {test} seed {vseed}/{mseed} ended with {code} in {time.time()-t0:.0f}s: {text[-800:]}")
    rep["samples"] = [{"miri_test": test, "verif_seed": vseed, "miri_seed": mseed, "wall_s": round(time.time() - t0, 1)}]
    json.dump(rep, open(out, "w"))


if __name__ == "__main__":
    main()
