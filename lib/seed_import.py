#!/usr/bin/env python3
"""Import a sub-agent's seeded change from its worktree into /verif/seeded/<name>/.
usage: seed_import.py <worktree> <name> <caught_by comma list or -> <missed_by comma list or -> [note]"""
import json, os, subprocess, sys, shutil, re
V = os.path.dirname(os.path.dirname(os.path.abspath(__file__)))
wt, name, caught, missed = sys.argv[1:5]
note = sys.argv[5] if len(sys.argv) > 5 else ""
dst = os.path.join(V, "seeded", name)
os.makedirs(dst, exist_ok=True)
diff = subprocess.run(["git", "-C", wt, "diff", "HEAD", "--", "."], capture_output=True, text=True).stdout
open(os.path.join(dst, "patch.diff"), "w").write(diff)
for f in ("demo.rs",):
    src = os.path.join(wt, "SEEDED", f)
    if os.path.exists(src):
        shutil.copy(src, os.path.join(dst, f))
meta = json.load(open(os.path.join(wt, "SEEDED", "meta.json")))
meta["caught_by"] = [] if caught == "-" else caught.split(",")
meta["missed_by"] = [] if missed == "-" else missed.split(",")
meta["patch_applies_to_repo_head"] = subprocess.run(["git", "-C", wt, "rev-parse", "HEAD"], capture_output=True, text=True).stdout.strip()
conf = os.path.join(wt, "SEEDED", "confirm.log")
mine = {}
if os.path.exists(conf):
    t = open(conf).read()
    for k in ("demo_with_change_exit", "demo_without_change_exit", "suite_exit"):
        m = re.search(k + r"=(\d+)", t)
        if m:
            mine[k] = int(m.group(1))
    m = re.findall(r"Summary \[.*?\] (.*)", t)
    if m:
        mine["suite_summary"] = m[-1]
meta["confirmed_by_me"] = mine
meta["ran_checks"] = "lib/mutant_run.sh %s %s <checks> (scratch copy of /verif against the worktree, quick tier, seed 1)" % (wt, name)
if note:
    meta["note"] = note
json.dump(meta, open(os.path.join(dst, "meta.json"), "w"), indent=1)
print(name, "imported:", len(diff.splitlines()), "diff lines;", mine)
