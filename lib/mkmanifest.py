#!/usr/bin/env python3
"""Regenerate /verif/MANIFEST.json from lib/plans.py metadata."""
import json
import os
import sys

sys.path.insert(0, os.path.dirname(os.path.abspath(__file__)))
import plans  # noqa: E402

VERIF = os.path.dirname(os.path.dirname(os.path.abspath(__file__)))
ALL = [f"C{i:02d}" for i in range(1, 21)]


def main():
    hooks_commits = []
    p = os.path.join(VERIF, "hooks-commits.txt")
    if os.path.exists(p):
        hooks_commits = [l.strip() for l in open(p) if l.strip() and not l.startswith("#")]
    checks = []
    for pid in ALL:
        if pid not in plans.PLANS:
            continue
        pl = plans.PLANS[pid]
        checks.append({
            "property_id": pid,
            "quick_cmd": f"./check {pid} --tier quick",
            "thorough_cmd": f"./check {pid} --tier thorough",
            "evidence_file": f"/verif/evidence/{pid}.json",
            "replay_cmd_template": f"./check {pid} --replay {{path}}",
            "engine": pl.get("engine", "eggmon"),
            "level_claimed": {
                "category": pl.get("level", "exploration"),
                "text": pl["level_text"],
                "design_ref": f"DESIGN.md §4 {pid}",
            },
            "level_note": pl["level_note"],
            "technique": pl["technique"],
        })
    na = [{"property_id": pid, "reason": plans.NOT_APPLICABLE.get(pid, "monitor not built yet in this round; no claim is made")}
          for pid in ALL if pid not in plans.PLANS]
    man = {
        "version": 1,
        "setup_cmd": "./check --build",
        "hooks": {
            "guard": "cfg(egglog_verif)",
            "enable": "harness/.cargo/config.toml sets rustflags = [\"--cfg\", \"egglog_verif\"] for every build of the harness workspace, whose crates are path dependencies on /repo",
            "baseline_off_cmd": "cd /repo && cargo nextest run --workspace --no-fail-fast --offline --test-threads 8",
            "source_commits": hooks_commits,
            "add_only": True,
        },
        "engines": [
            {"name": "eggmon", "path": "harness/eggmon", "serves_properties": [p for p in ALL if p in plans.PLANS and plans.PLANS[p].get("engine", "eggmon") == "eggmon"],
             "kind_free_text": "Rust binary linking the real egglog crate; generators, canonical dump, reference oracles, differential monitors; one sub-command per property, run in child processes by ./check"},
            {"name": "relmon", "path": "harness/relmon", "serves_properties": [p for p in ALL if p in plans.PLANS and plans.PLANS[p].get("engine") == "relmon"],
             "kind_free_text": "model-based sequence monitor over egglog-core-relations' public API"},
            {"name": "concmon", "path": "harness/concmon", "serves_properties": [p for p in ALL if p in plans.PLANS and plans.PLANS[p].get("engine") == "concmon"],
             "kind_free_text": "history recorders + checkers for egglog-concurrency and egglog-union-find, native stress with perturbation hooks and Miri many-seeds"},
        ],
        "checks": checks,
        "not_applicable": na,
        "notes": "All checks: ./check <ID> [--tier quick|thorough]; VERIF_SEED / VERIF_TIER honoured. Exit 0 held / 1 VIOLATION / 2 INCONCLUSIVE (machinery could not look). Known findings: known-findings.json.",
    }
    with open(os.path.join(VERIF, "MANIFEST.json"), "w") as f:
        json.dump(man, f, indent=1)
    print(f"MANIFEST.json: {len(checks)} checks, {len(na)} not_applicable")


if __name__ == "__main__":
    main()
