"""Per-property execution plans: which monitor children to run, with which
configuration, coverage floors, and evidence level."""
import os

def eggmon(bin_dir, mon, label, seed, tier, n=None, threads=1, env=None, extra=None, timeout=3000, on_crash="inconclusive"):
    argv = [os.path.join(bin_dir, "eggmon"), mon, "--seed", str(seed), "--tier", tier, "--out", "{out}", "--threads", str(threads)]
    if n is not None:
        argv += ["--n", str(n)]
    for k, v in (extra or {}).items():
        argv += ["--" + k, str(v)]
    return {"label": label, "argv": argv, "env": env or {}, "timeout": timeout, "on_crash": on_crash}


def shards(bin_dir, mon, seed, tier, quick_n, thorough_n, nshards_quick=4, nshards_thorough=16, **kw):
    """Split n cases over several child processes with derived seeds."""
    n = quick_n if tier == "quick" else thorough_n
    k = nshards_quick if tier == "quick" else nshards_thorough
    per = max(1, n // k)
    return [eggmon(bin_dir, mon, f"{mon}-s{i}", seed * 1000 + i, tier, n=per, **kw) for i in range(k)]


def c04_jobs(tier, seed, bin_dir, replay):
    if replay:
        return [eggmon(bin_dir, "c04", "replay", seed, tier, extra={"replay": replay})]
    jobs = shards(bin_dir, "c04", seed, tier, 4000, 200000)
    # parallel configuration: 4 threads, cut-offs 0
    n = 500 if tier == "quick" else 20000
    jobs.append(eggmon(bin_dir, "c04", "c04-par", seed * 1000 + 99, tier, n=n, threads=4, env=ALL_ZERO))
    return jobs


ALL_ZERO = {}


def _init_all_zero():
    # filled from the repo's parallel_heuristics.rs names (kept in one place)
    for name in [
        "EGGLOG_PARALLEL_DB_LEVEL_OP_CUTOFF",
        "EGGLOG_PARALLEL_INDEX_CONSTRUCTION_CUTOFF",
        "EGGLOG_PARALLEL_REBUILD_CUTOFF",
        "EGGLOG_PARALLEL_INTRA_CONTAINER_CUTOFF",
        "EGGLOG_PARALLEL_INTER_CONTAINER_CUTOFF",
        "EGGLOG_PARALLEL_TABLE_OP_CUTOFF",
    ]:
        ALL_ZERO[name] = "0"
    ALL_ZERO["EGGLOG_PARALLEL_ACTION_BATCH_SIZE"] = "1"
    ALL_ZERO["EGGLOG_PARALLEL_FREE_JOIN_FORK_DEPTH"] = "4"
    ALL_ZERO["EGGLOG_PARALLEL_TASKS_PER_THREAD"] = "3"


_init_all_zero()

def simple_jobs(mon, qn, tn, par_n=None, witness_dir=None, extra=None):
    """Sharded serial children + (optionally) one 4-thread child with all cut-offs at 0."""
    def jobs(tier, seed, bin_dir, replay):
        if replay:
            return [eggmon(bin_dir, "exec", "replay", seed, tier, extra={"file": replay})]
        js = shards(bin_dir, mon, seed, tier, qn, tn, extra=extra)
        if witness_dir:
            js[0]["argv"] += ["--witness-dir", os.path.join(VERIF, witness_dir)]
        if par_n:
            n = par_n[0] if tier == "quick" else par_n[1]
            js.append(eggmon(bin_dir, mon, f"{mon}-par4", seed * 1000 + 99, tier, n=n, threads=4, env=ALL_ZERO, extra=extra))
        return js
    return jobs


VERIF = os.path.dirname(os.path.dirname(os.path.abspath(__file__)))

PLANS = {
    "C04": {
        "jobs": c04_jobs,
        "level": "fault_enumeration",
        "floors": {"quick": {"inspections": 20000, "histories_with_runtime_fault": 200},
                   "thorough": {"inspections": 1000000, "histories_with_runtime_fault": 10000}},
        "technique": "runtime invariant monitor at every command boundary (public read API), fault-sequence injection",
        "level_text": "Generated command histories with injected run-time faults (panicking rule next to unioning rules, :no-merge conflict, failing primitive, failed lookup) are executed on the real engine; after every single command, Ok or Err, the monitor recomputes key uniqueness, id canonicity, congruence and container uniqueness from the public read API. Serial and 4-thread/cut-off-0 configurations.",
        "level_note": "Trusts the public read API (constructor_enodes/function_entries/value_to_class_id/inner_values) to report what is stored; hidden helper tables are not inspected; reach is bounded by the generator's grammar.",
        "assumptions": [
            "invariants are recomputed from the public read API (functions_iter, constructor_enodes, function_entries, value_to_class_id, container inner_values)",
            "hidden (compiler-generated) tables are not inspected",
        ],
    },
}

PLANS["C03"] = {
    "jobs": simple_jobs("c03", 3000, 150000, par_n=(300, 15000)),
    "level": "exploration",
    "technique": "differential runtime monitor: seminaive vs naive e-graph in lock-step, canonical dump compared after every iteration",
    "level_text": "Thousands of generated monotone histories (top-level writes, rule declarations and runs of different rulesets interleaved, congruence chains, containers, :subsume rewrites) are run on a seminaive and a naive e-graph step by step; after every iteration the canonical dumps (ids renamed by least term) must be equal. Serial and 4-thread/cut-off-0 configurations.",
    "level_note": "Engine compared with itself: a defect common to both modes is invisible here (C01/C02 cover that). Canonical naming uses least terms; classes without any term are named by colour refinement (sound, not complete).",
    "floors": {"quick": {"iterations_compared": 5000, "histories_with_rule_progress": 300}, "thorough": {"iterations_compared": 200000, "histories_with_rule_progress": 10000}},
    "assumptions": ["dump via public read API", "generator grammar bounds the reach"],
}
PLANS["C08"] = {
    "jobs": simple_jobs("c08", 1600, 60000, par_n=(200, 5000)),
    "level": "exploration",
    "technique": "differential runtime monitor: P;push;Q;pop;R vs P;R and clone-vs-fresh, outputs and canonical dumps compared after every command",
    "level_text": "Generated triples (P,Q,R) with Q declaring fresh sorts/functions/rulesets/rules, running, failing and nesting push/pop, and R re-declaring Q's names and probing (print-size, print-function, extract, check, runs). Every R command must behave identically with and without the bracket; clone and original are driven apart and each compared with a fresh e-graph.",
    "level_note": "Outputs are compared modulo machine-generated @-symbol counters (pop keeps the symbol generator by design). Overall run statistics are not compared (pop keeps them by design).",
    "floors": {"quick": {"r_commands_compared": 10000, "clone_pairs": 500}, "thorough": {"r_commands_compared": 500000, "clone_pairs": 20000}},
    "assumptions": ["dump via public read API"],
}
PLANS["C10"] = {
    "jobs": simple_jobs("c10", 1200, 60000, par_n=(100, 3000)),
    "level": "exploration",
    "technique": "metamorphic runtime monitor: schedule laws on clones + literal reference scheduler driving single iterations",
    "level_text": "For each generated program, pairs of schedules related by the stated laws are run on clones and must end in equal canonical dumps; a reference scheduler in the harness steps rulesets one iteration at a time (stop when the dump does not change), checks :until before every iteration, and re-runs saturated schedules to confirm a fixpoint and updated=false. Missed progress (dump changed, updated=false) is a violation; updated=true with an unchanged dump is only counted.",
    "level_note": "'changes nothing' is decided by canonical-dump equality; removal-only iterations do not arise in the generated (monotone) programs.",
    "floors": {"quick": {"law_instances": 5000, "fixpoint_rechecks": 300}, "thorough": {"law_instances": 250000, "fixpoint_rechecks": 15000}},
    "assumptions": ["dump via public read API"],
}
PLANS["C11"] = {
    "jobs": simple_jobs("c11", 400, 24000, witness_dir="witnesses/C11"),
    "level": "translation_validation",
    "technique": "translation validation by differential execution: plain vs term-encoding vs proofs per command, plus print/re-parse/re-run of the desugared encoded program",
    "level_text": "Every generated program accepted by program_supports_proofs is executed command by command in the three modes; Ok/Err class and the projection upstream declares stable (check outcomes, print-size, extraction cost) must agree; the desugared encoded program is printed, re-parsed and re-run on a plain engine. Six known encoder divergences (delete family, subsume of absent rows, container literal inference, subsumed flag lost on container rebuild) are excluded from generation and replayed as fixed witnesses.",
    "level_note": "Compares exactly the projection upstream's own cross-treatment snapshot uses; print-function and extract-variants outputs are not compared; checks are not generated in programs that use subsume (documented upstream limitation).",
    "floors": {"quick": {"programs_supported": 300, "desugared_reruns": 500}, "thorough": {"programs_supported": 15000, "desugared_reruns": 30000}},
    "coverage_extra": lambda c, t: {"programs": int(c.get("programs_supported", 0)), "disagreements_checked": int(c.get("disagreements", 0))},
    "assumptions": ["plain engine is the reference"],
}

NOT_APPLICABLE = {}
