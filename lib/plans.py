"""Per-property execution plans: which monitor children to run, with which
configuration, coverage floors, and evidence level."""
import os

def eggmon(bin_dir, mon, label, seed, tier, n=None, threads=1, env=None, extra=None, timeout=None, on_crash="inconclusive"):
    if timeout is None:
        timeout = 3000 if tier == "quick" else 14000
    argv = [os.path.join(bin_dir, "eggmon"), mon, "--seed", str(seed), "--tier", tier, "--out", "{out}", "--threads", str(threads)]
    if n is not None:
        argv += ["--n", str(n)]
    for k, v in (extra or {}).items():
        argv += ["--" + k, str(v)]
    return {"label": label, "argv": argv, "env": env or {}, "timeout": timeout, "on_crash": on_crash}


def shards(bin_dir, mon, seed, tier, quick_n, thorough_n, nshards_quick=4, nshards_thorough=16, **kw):
    """Split n cases over several child processes with derived seeds."""
    n = quick_n if tier == "quick" else thorough_n
    k = nshards_quick if tier == "quick" else nshards_thorough
    per = max(1, n // k)
    return [eggmon(bin_dir, mon, f"{mon}-s{i}", seed * 1000 + i, tier, n=per, **kw) for i in range(k)]


def c04_jobs(tier, seed, bin_dir, replay):
    if replay:
        return [eggmon(bin_dir, "c04", "replay", seed, tier, extra={"replay": replay})]
    jobs = shards(bin_dir, "c04", seed, tier, 4000, 200000)
    # parallel configuration: 4 threads, cut-offs 0
    n = 500 if tier == "quick" else 20000
    jobs.append(eggmon(bin_dir, "c04", "c04-par", seed * 1000 + 99, tier, n=n, threads=4, env=ALL_ZERO))
    return jobs


ALL_ZERO = {}


def _init_all_zero():
    # filled from the repo's parallel_heuristics.rs names (kept in one place)
    for name in [
        "EGGLOG_PARALLEL_DB_LEVEL_OP_CUTOFF",
        "EGGLOG_PARALLEL_INDEX_CONSTRUCTION_CUTOFF",
        "EGGLOG_PARALLEL_REBUILD_CUTOFF",
        "EGGLOG_PARALLEL_INTRA_CONTAINER_CUTOFF",
        "EGGLOG_PARALLEL_INTER_CONTAINER_CUTOFF",
        "EGGLOG_PARALLEL_TABLE_OP_CUTOFF",
    ]:
        ALL_ZERO[name] = "0"
    ALL_ZERO["EGGLOG_PARALLEL_ACTION_BATCH_SIZE"] = "1"
    ALL_ZERO["EGGLOG_PARALLEL_FREE_JOIN_FORK_DEPTH"] = "4"
    ALL_ZERO["EGGLOG_PARALLEL_TASKS_PER_THREAD"] = "3"


_init_all_zero()

def simple_jobs(mon, qn, tn, par_n=None, witness_dir=None, extra=None):
    """Sharded serial children + (optionally) one 4-thread child with all cut-offs at 0."""
    def jobs(tier, seed, bin_dir, replay):
        if replay:
            return [eggmon(bin_dir, "exec", "replay", seed, tier, extra={"file": replay})]
        js = shards(bin_dir, mon, seed, tier, qn, tn, extra=extra)
        if witness_dir:
            js[0]["argv"] += ["--witness-dir", os.path.join(VERIF, witness_dir)]
        if par_n:
            n = par_n[0] if tier == "quick" else par_n[1]
            js.append(eggmon(bin_dir, mon, f"{mon}-par4", seed * 1000 + 99, tier, n=n, threads=4, env=ALL_ZERO, extra=extra))
        return js
    return jobs


VERIF = os.path.dirname(os.path.dirname(os.path.abspath(__file__)))

PLANS = {
    "C04": {
        "jobs": c04_jobs,
        "level": "fault_enumeration",
        "floors": {"quick": {"inspections": 20000, "histories_with_runtime_fault": 200},
                   "thorough": {"inspections": 1000000, "histories_with_runtime_fault": 10000}},
        "technique": "runtime invariant monitor at every command boundary (public read API), fault-sequence injection",
        "level_text": "Generated command histories with injected run-time faults (panicking rule next to unioning rules, :no-merge conflict, failing primitive, failed lookup) are executed on the real engine; after every single command, Ok or Err, the monitor recomputes key uniqueness, id canonicity, congruence and container uniqueness from the public read API. Serial and 4-thread/cut-off-0 configurations.",
        "level_note": "Trusts the public read API (constructor_enodes/function_entries/value_to_class_id/inner_values) to report what is stored; hidden helper tables are not inspected; reach is bounded by the generator's grammar.",
        "assumptions": [
            "invariants are recomputed from the public read API (functions_iter, constructor_enodes, function_entries, value_to_class_id, container inner_values)",
            "hidden (compiler-generated) tables are not inspected",
        ],
    },
}

PLANS["C03"] = {
    "jobs": simple_jobs("c03", 3000, 150000, par_n=(300, 15000)),
    "level": "exploration",
    "technique": "differential runtime monitor: seminaive vs naive e-graph in lock-step, canonical dump compared after every iteration",
    "level_text": "Thousands of generated monotone histories (top-level writes, rule declarations and runs of different rulesets interleaved, congruence chains, containers, :subsume rewrites) are run on a seminaive and a naive e-graph step by step; after every iteration the canonical dumps (ids renamed by least term) must be equal. Serial and 4-thread/cut-off-0 configurations.",
    "level_note": "Engine compared with itself: a defect common to both modes is invisible here (C01/C02 cover that). Canonical naming uses least terms; classes without any term are named by colour refinement (sound, not complete).",
    "floors": {"quick": {"iterations_compared": 5000, "histories_with_rule_progress": 300}, "thorough": {"iterations_compared": 200000, "histories_with_rule_progress": 10000}},
    "assumptions": ["dump via public read API", "generator grammar bounds the reach"],
}
PLANS["C08"] = {
    "jobs": simple_jobs("c08", 1600, 60000, par_n=(200, 5000)),
    "level": "exploration",
    "technique": "differential runtime monitor: P;push;Q;pop;R vs P;R and clone-vs-fresh, outputs and canonical dumps compared after every command",
    "level_text": "Generated triples (P,Q,R) with Q declaring fresh sorts/functions/rulesets/rules, running, failing and nesting push/pop, and R re-declaring Q's names and probing (print-size, print-function, extract, check, runs). Every R command must behave identically with and without the bracket; clone and original are driven apart and each compared with a fresh e-graph.",
    "level_note": "Outputs are compared modulo machine-generated @-symbol counters (pop keeps the symbol generator by design). Overall run statistics are not compared (pop keeps them by design).",
    "floors": {"quick": {"r_commands_compared": 10000, "clone_pairs": 500}, "thorough": {"r_commands_compared": 500000, "clone_pairs": 20000}},
    "assumptions": ["dump via public read API"],
}
def c10_jobs(tier, seed, bin_dir, replay):
    js = simple_jobs("c10", 1200, 60000, par_n=(100, 3000))(tier, seed, bin_dir, replay)
    if replay:
        return js
    q = tier == "quick"
    # naive evaluation re-fires every match each iteration: the progress signal must still settle
    js.append(eggmon(bin_dir, "c10", "c10-naive", seed * 1000 + 55, tier, n=(300 if q else 15000), extra={"naive": 1}))
    js.append(eggmon(bin_dir, "c10", "c10-naive-par4", seed * 1000 + 56, tier, n=(100 if q else 3000), threads=4, env=ALL_ZERO, extra={"naive": 1}))
    return js


PLANS["C10"] = {
    "jobs": c10_jobs,
    "level": "exploration",
    "technique": "metamorphic runtime monitor: schedule laws on clones + literal reference scheduler driving single iterations",
    "level_text": "For each generated program, pairs of schedules related by the stated laws are run on clones and must end in equal canonical dumps; a reference scheduler in the harness steps rulesets one iteration at a time (stop when the dump does not change), checks :until before every iteration, and re-runs saturated schedules to confirm a fixpoint and updated=false. Missed progress (dump changed, updated=false) is a violation; updated=true with an unchanged dump is only counted.",
    "level_note": "'changes nothing' is decided by canonical-dump equality; removal-only iterations do not arise in the generated (monotone) programs.",
    "floors": {"quick": {"law_instances": 5000, "fixpoint_rechecks": 300}, "thorough": {"law_instances": 250000, "fixpoint_rechecks": 15000}},
    "assumptions": ["dump via public read API"],
}
PLANS["C11"] = {
    "jobs": simple_jobs("c11", 400, 24000, witness_dir="witnesses/C11"),
    "level": "translation_validation",
    "technique": "translation validation by differential execution: plain vs term-encoding vs proofs per command, plus print/re-parse/re-run of the desugared encoded program",
    "level_text": "Every generated program accepted by program_supports_proofs is executed command by command in the three modes; Ok/Err class and the projection upstream declares stable (check outcomes, print-size, extraction cost) must agree; the desugared encoded program is printed, re-parsed and re-run on a plain engine. Six known encoder divergences (delete family, subsume of absent rows, container literal inference, subsumed flag lost on container rebuild) are excluded from generation and replayed as fixed witnesses.",
    "level_note": "Compares exactly the projection upstream's own cross-treatment snapshot uses; print-function and extract-variants outputs are not compared; checks are not generated in programs that use subsume (documented upstream limitation).",
    "floors": {"quick": {"programs_supported": 300, "desugared_reruns": 500}, "thorough": {"programs_supported": 15000, "desugared_reruns": 30000}},
    "coverage_extra": lambda c, t: {"programs": int(c.get("programs_supported", 0)), "disagreements_checked": int(c.get("disagreements", 0))},
    "assumptions": ["plain engine is the reference"],
}


def _cut(**kw):
    e = dict(ALL_ZERO)
    e.update({k: str(v) for k, v in kw.items()})
    return e


def c06_jobs(tier, seed, bin_dir, replay):
    if replay:
        return [eggmon(bin_dir, "exec", "replay", seed, tier, threads=4, env=ALL_ZERO, extra={"file": replay})]
    n = 150 if tier == "quick" else 1500
    base = {"profile": "mono"}
    jobs = [eggmon(bin_dir, "battery", "ref-j1", seed, tier, n=n, threads=1, extra=dict(base, texts=1))]
    configs = [
        ("j2-zero", 2, ALL_ZERO), ("j4-zero", 4, ALL_ZERO), ("j8-zero", 8, ALL_ZERO),
        ("j4-default", 4, {}),
        ("j3-tableop0", 3, {"EGGLOG_PARALLEL_TABLE_OP_CUTOFF": "0"}),
        ("j4-rebuild0", 4, {"EGGLOG_PARALLEL_REBUILD_CUTOFF": "0", "EGGLOG_PARALLEL_DB_LEVEL_OP_CUTOFF": "0"}),
        ("j4-batch7-fork0", 4, _cut(EGGLOG_PARALLEL_ACTION_BATCH_SIZE=7, EGGLOG_PARALLEL_FREE_JOIN_FORK_DEPTH=0)),
    ]
    # naive evaluation (every match re-fires each iteration) against its own single-threaded reference
    jobs.append(eggmon(bin_dir, "battery", "refnaive-j1", seed, tier, n=n, threads=1, extra=dict(base, texts=1, naive=1)))
    for r in range(2 if tier == "quick" else 4):
        jobs.append(eggmon(bin_dir, "battery", f"naive-j4-zero-r{r}", seed, tier, n=n, threads=4, env=ALL_ZERO, extra=dict(base, naive=1), on_crash="violation", timeout=900))
    if tier != "quick":
        configs += [
            ("j16-zero", 16, ALL_ZERO), ("j3-zero", 3, ALL_ZERO),
            ("j4-index0", 4, {"EGGLOG_PARALLEL_INDEX_CONSTRUCTION_CUTOFF": "0"}),
            ("j4-container0", 4, {"EGGLOG_PARALLEL_INTRA_CONTAINER_CUTOFF": "0", "EGGLOG_PARALLEL_INTER_CONTAINER_CUTOFF": "0"}),
            ("j8-batch8192-fork1", 8, _cut(EGGLOG_PARALLEL_ACTION_BATCH_SIZE=8192, EGGLOG_PARALLEL_FREE_JOIN_FORK_DEPTH=1)),
            ("j2-tasks5", 2, _cut(EGGLOG_PARALLEL_TASKS_PER_THREAD=5)),
        ]
    reps = 2 if tier == "quick" else 4
    for label, j, env in configs:
        for r in range(reps):
            job = eggmon(bin_dir, "battery", f"{label}-r{r}", seed, tier, n=n, threads=j, env=env, extra=base, on_crash="violation")
            # widen OS schedules: pin some repeats to 1-2 cores (forced preemption)
            if r % 2 == 1:
                job["argv"] = ["taskset", "-c", "0" if r == 1 else "0,1"] + job["argv"]
            jobs.append(job)
    return jobs


def _cases(rep):
    return rep["samples"][0]["cases"] if rep and rep.get("samples") else []


def compare_post(keys, prop, what):
    def post(results, counters, violations, inconclusive, tier):
        refs = {}
        for job, rep, status, tail, dt in results:
            if job["label"].startswith("refnaive"):
                refs["naive"] = _cases(rep)
            elif job["label"].startswith("ref"):
                refs["plain"] = _cases(rep)
        if not refs.get("plain"):
            inconclusive.append("reference child produced no cases")
            return
        compared = 0
        for job, rep, status, tail, dt in results:
            if job["label"].startswith("ref") or rep is None:
                continue
            ref = refs.get("naive") if job["label"].startswith("naive") else refs["plain"]
            if not ref:
                inconclusive.append("naive reference child produced no cases")
                continue
            cs = _cases(rep)
            for a, b in zip(ref, cs):
                compared += 1
                for k in keys:
                    if a[k] != b[k]:
                        violations.append({
                            "sig": f"{prop}:{job['label']}:{a['i']}:{k}",
                            "detail": f"{what}: program #{a['i']} differs in {k} between reference child and child {job['label']} (env {job.get('env')}, argv {' '.join(job['argv'][:3])} ...)",
                            "replay": a.get("text", ""),
                        })
                        break
        counters["cross_process_comparisons"] = compared
        # keep evidence small: drop the per-case arrays from samples
    return post


PLANS["C06"] = {
    "jobs": c06_jobs,
    "post": compare_post(["h_stable", "h_canon"], "C06", "result depends on thread count / parallel cut-offs"),
    "level": "exploration",
    "rule": "the same generated monotone programs (seeded) are executed in child processes that differ only in thread count and EGGLOG_PARALLEL_* settings (cut-offs 0 so every parallel implementation runs on small inputs; repeats, some pinned to 1-2 cores); per program the stable outputs (check outcomes, sizes, extraction costs) and the canonical dump must equal the single-threaded reference. distinct_nontrivial = distinct non-empty final dumps.",
    "technique": "cross-process differential monitor: -j1 reference vs parallel configurations (cut-offs 0), canonical dumps and stable outputs compared",
    "level_text": "Each parallel configuration (2..16 threads x cut-off profiles incl. all zero, fork depth, action batch size) is run in its own child process on the same generated programs; results must be isomorphic to the single-threaded run. Schedules are widened by repetition and CPU pinning; a crashing child (assert, abort) counts as a violation.",
    "level_note": "OS scheduling is sampled, not enumerated. Output ORDER (print-function rows, extract tie-breaking) is not compared across thread counts; the canonical dump is.",
    "floors": {"quick": {"cross_process_comparisons": 1500}, "thorough": {"cross_process_comparisons": 60000}},
    "assumptions": ["dump via public read API", "cut-offs are read once per process from the environment"],
}


def c20_jobs(tier, seed, bin_dir, replay):
    if replay:
        return [eggmon(bin_dir, "exec", "replay", seed, tier, extra={"file": replay})]
    n = 1500 if tier == "quick" else 20000
    jobs = []
    T = "/repo/tests/"
    # order-revealing inputs of my own (type errors that list the overload alternatives they tried)
    own = [os.path.join(VERIF, "witnesses", "C20", "overload-order.egg")]
    qfiles = own + [T + "factoring-multisets.egg", T + "taylor51.egg", T + "web-demo/eqsolve.egg", T + "web-demo/towers-of-hanoi.egg"]
    tfiles = qfiles + [T + "python_array_optimize.egg", T + "math-microbenchmark.egg"]
    for mode in ["plain", "term", "proofs"]:
        files = [f for f in (qfiles if tier == "quick" else tfiles) if os.path.exists(f)]
        if mode != "plain":
            # the encodings are ~10x slower and reject part of the grammar: fewer programs, no big files
            files = [f for f in files if "web-demo" in f]
        base = {"profile": "any" if mode == "plain" else "enc", "mode": mode, "files": ",".join(files)}
        if mode != "plain":
            n = 150 if tier == "quick" else 2500
        pre = "" if mode == "plain" else mode + "-"
        jobs.append(eggmon(bin_dir, "battery", f"ref-{mode}", seed, tier, n=n, extra=dict(base, texts=1)))
        variants = [
            (pre + "again", {}, [], {}),
            (pre + "bigenv", {"VERIF_PAD": "x" * 20000, "RUST_LOG": "off", "LANG": "C"}, [], {}),
            (pre + "noaslr", {}, ["setarch", "x86_64", "-R"], {}),
            (pre + "cpu1", {}, ["taskset", "-c", "0"], {}),
            (pre + "cpu3", {}, ["taskset", "-c", "0-2"], {}),
            (pre + "prealloc", {}, [], {"prealloc": 20000}),
            (pre + "cwd", {}, [], {}),
        ]
        for label, env, prefix, extra in variants:
            job = eggmon(bin_dir, "battery", label, seed, tier, n=n, env=env, extra=dict(base, **extra))
            job["argv"] = prefix + job["argv"]
            if label.endswith("cwd"):
                job["cwd"] = "/"
            jobs.append(job)
    return jobs


def c20_post(results, counters, violations, inconclusive, tier):
    by_mode = {}
    for r in results:
        lab = r[0]["label"]
        mode = "plain"
        for m in ("term", "proofs"):
            if lab.startswith(m + "-") or lab == "ref-" + m:
                mode = m
        by_mode.setdefault(mode, []).append(r)
    total = 0
    for mode, rs in by_mode.items():
        sub = {}
        compare_post(["h_full", "h_canon"], "C20", f"single-threaded run not reproducible ({mode} mode)")(
            [(dict(j, label=("ref" if j["label"].startswith("ref") else j["label"])), rep, st, tl, dt) for j, rep, st, tl, dt in rs],
            sub, violations, inconclusive, tier)
        total += sub.get("cross_process_comparisons", 0)
    counters["cross_process_comparisons"] = total


PLANS["C20"] = {
    "jobs": c20_jobs,
    "post": c20_post,
    "level": "exploration",
    "rule": "generated programs biased to order-revealing outputs (print-function, extract with ties, print-size, containers, delete, push/pop) are executed single-threaded in several child processes that differ in environment size/content, ASLR (setarch -R), CPU affinity (available_parallelism), allocator pre-state and working directory; the complete rendered outputs (incl. errors and timing-free run reports) and canonical dumps must be byte-identical to the reference child. distinct_nontrivial = distinct non-empty final dumps.",
    "technique": "cross-process differential monitor: byte comparison of full command outputs and run reports across processes with perturbed address space / environment",
    "level_text": "The same seeded programs run with one thread in 8 differently perturbed processes (plus term-encoding and proofs modes in thorough); any byte difference in outputs, errors, run reports (durations removed) or canonical dump is a violation.",
    "level_note": "Perturbations sampled: ASLR on/off, env size, RUST_LOG, CPU set 1/3/all, allocation storm, cwd. Wall-clock dependence is probed only by the natural spacing of child start times.",
    "floors": {"quick": {"cross_process_comparisons": 1000}, "thorough": {"cross_process_comparisons": 30000}},
    "assumptions": ["outputs rendered with Display; run report = updated/can_stop/iterations/matches per rule"],
}


def concmon(bin_dir, mon, label, seed, tier, n=None, timeout=3000):
    argv = [os.path.join(bin_dir, "concmon"), mon, "--seed", str(seed), "--tier", tier, "--out", "{out}"]
    if n is not None:
        argv += ["--n", str(n)]
    return {"label": label, "argv": argv, "env": {}, "timeout": timeout, "on_crash": "violation"}


def miri_jobs(prop, tests, nseeds, seed, alias="off"):
    js = []
    for t in tests:
        for k in range(nseeds):
            js.append({"label": f"miri-{t}-{k}", "argv": ["python3", os.path.join(VERIF, "lib", "miri_job.py"), "concmon", "miri", t,
                                                            str(seed * 100 + k), str(seed * 1000 + k), "{out}", prop, alias],
                       "env": {}, "timeout": 3400, "on_crash": "inconclusive"})
    return js


def c17_jobs(tier, seed, bin_dir, replay):
    q = tier == "quick"
    js = [concmon(bin_dir, "uf-seq", "uf-seq", seed, tier)]
    k = 4 if q else 16
    per = 250 if q else 4000
    js += [concmon(bin_dir, "uf-conc", f"uf-conc-{i}", seed * 100 + i, tier, n=per) for i in range(k)]
    js += miri_jobs("C17", ["uf_sequential_small", "uf_concurrent_histories"], 6 if q else 64, seed)
    return js


def c19_jobs(tier, seed, bin_dir, replay):
    q = tier == "quick"
    k = 4 if q else 16
    js = [concmon(bin_dir, "pool", f"pool-{i}", seed * 100 + i, tier, n=(300 if q else 3000)) for i in range(k)]
    js += [concmon(bin_dir, "shared", f"shared-{i}", seed * 100 + i, tier, n=(240 if q else 3000)) for i in range(k)]
    js += miri_jobs("C19", ["pool_spawn_trees", "shared_structures", "rol_three_roles", "cvec_logical_exclusion"], 6 if q else 64, seed)
    js += miri_jobs("C19", ["witness_pool_drop_aliasing"], 1, seed, alias="tb")
    return js


PLANS["C17"] = {
    "jobs": c17_jobs,
    "packages": ("concmon",),
    "engine": "concmon",
    "parallel": 12,
    "level": "exploration",
    "rule": "sequential: every op sequence (union/find/find_naive/reset) up to a length bound over 2-5 ids exhaustively, plus random longer ones, compared with a partition model after every op. concurrent: recorded histories of 2-8 threads on a hot id space with resizes and armed perturbation hooks, checked offline against necessary linearizability conditions of the monotone union-find; the same scenarios scaled down under Miri (UB/data-race interpreter, one scheduler seed per process). distinct_nontrivial = distinct random sequences + distinct overlapping interleavings + clean Miri executions.",
    "technique": "model-based sequence checking (exhaustive small bounds) + recorded concurrent histories with an offline linearizability-condition checker + Miri many-seeds",
    "level_text": "Sequential UF: exhaustive for small bounds, random beyond, against a partition model after every op (min-id representative, find does not change the partition). Concurrent UF: thousands of short histories with real overlap (perturbation hooks between load and CAS and around Buffer resize), each checked for: final partition = closure of issued unions with min roots, link-once, and per-query bounds from the unions invoked-before-return / returned-before-call. Miri runs the same scenarios for UB and data races.",
    "level_note": "The concurrent conditions are necessary, not sufficient, for linearizability; interleavings are sampled. Miri runs with the data-race detector and weak-memory emulation on and the experimental aliasing models off (see DESIGN §5).",
    "floors": {"quick": {"operations_overlapping_another_thread": 20000, "exhaustive_spaces_completed": 3, "miri_executions_clean": 6},
               "thorough": {"operations_overlapping_another_thread": 1000000, "exhaustive_spaces_completed": 4, "miri_executions_clean": 60}},
    "coverage_extra": lambda c, t: {"exhaustive": False, "exhaustive_subspace": "sequential op sequences: (ids,len) in {(2,5),(3,4),(4,3)} quick / {(2,7),(3,5),(4,4),(5,3)} thorough"},
    "assumptions": ["logical clock is one global SeqCst counter", "Miri: aliasing models off, data-race detector + weak memory emulation on, leaks ignored"],
}
PLANS["C19"] = {
    "jobs": c19_jobs,
    "packages": ("concmon",),
    "engine": "concmon",
    "parallel": 12,
    "level": "exploration",
    "rule": "seeded spawn trees (nested scopes, tasks spawning tasks, panics, depth-70 chains) on pools of 1-16 threads with per-task run counters and logical timestamps; ReadOptimizedLock torn-write / writer-overlap detectors; ConcurrentVec / ParallelVecWriter / NotificationList integrity scenarios; all natively with armed perturbation hooks and a logical deadlock detector on hook counters, and scaled down under Miri. distinct_nontrivial = distinct scenario parameterisations + clean Miri executions.",
    "technique": "runtime monitors over event counters/timestamps (exactly-once, scope-wait, panic propagation, torn-write, conservation) under seeded schedule perturbation + logical deadlock detector + Miri UB/data-race interpreter",
    "level_text": "Every scenario has a known finite amount of work; the monitor asserts exactly-once execution, completion before scope return (global logical clock), panic propagation, no torn read / no overlapping writers, all pushed / ranged-written / notified items present exactly once. Deadlock is decided logically (queue empty and every live job blocked in a scope wait, from hook counters), the wall-clock watchdog alone only yields inconclusive. Miri adds UB and data-race detection with weak-memory emulation.",
    "level_note": "Interleavings are sampled (perturbation seeds, Miri seeds); unbounded liveness is restated as bounded progress.",
    "floors": {"quick": {"tasks": 20000, "rol_writes": 5000, "miri_executions_clean": 8},
               "thorough": {"tasks": 1000000, "rol_writes": 200000, "miri_executions_clean": 100}},
    "assumptions": ["Miri: aliasing models off (Tree Borrows only for the ThreadPool::drop witness), data-race detector + weak memory on; pools are leaked (not dropped) inside Miri scenarios"],
}

PLANS["C15"] = {
    "jobs": simple_jobs("c15", 24000, 1600000),
    "level": "exploration",
    "technique": "round-trip (metamorphic) runtime oracle: generated syntax trees vs egglog's parse;print read back by an independent s-expression reader; literal extraction and resolve_program re-run",
    "level_text": "Syntax trees over the full command grammar with every option and hostile literals (i64 extremes, NaN, +-inf, -0.0, subnormals, 1e308, strings with quotes, backslashes, newlines, unicode) are printed, parsed and re-printed by egglog; an independent reader compares the result with the generated tree modulo option order and numeric spelling, and the printed text must be a fixpoint. Extracted literals are re-inserted and checked equal; resolve_program output is re-run on a fresh engine and must give the same outputs.",
    "level_note": "The comparison is on s-expression structure of the canonical text, which is what a span-erasing AST comparison amounts to; internal (:internal-*) annotations are exercised only through resolve_program outputs.",
    "floors": {"quick": {"grammar_productions_exercised": 60, "literal_extractions": 1000, "resolve_programs": 300}, "thorough": {"grammar_productions_exercised": 60, "literal_extractions": 100000, "resolve_programs": 20000}},
    "assumptions": ["independent reader implements the documented lexer rules (strings with \\n \\t \\\\ \\\" escapes, ; comments)"],
}


def c09_jobs(tier, seed, bin_dir, replay):
    if replay:
        return [eggmon(bin_dir, "exec", "replay", seed, tier, extra={"file": replay})]
    q = tier == "quick"
    js = shards(bin_dir, "c09", seed, tier, 6000, 240000, extra={"mode": "plain", "fuzz": 20000 if q else 400000})
    js[0]["argv"] += ["--witness-dir", os.path.join(VERIF, "witnesses/C09")]
    for mode in ("term", "proofs"):
        js.append(eggmon(bin_dir, "c09", f"c09-{mode}", seed * 1000 + 77, tier, n=(800 if q else 30000), extra={"mode": mode, "fuzz": 5000 if q else 100000}))
    return js


PLANS["C09"] = {
    "jobs": c09_jobs,
    "level": "fault_enumeration",
    "technique": "differential session monitor (S1;bad;S2 vs S1;S2, one call per command) over 30 kinds of typed mutations and malformed text, panic monitor, text fuzzer; plain, term-encoding and proofs modes",
    "level_text": "The enumerated dimension is (kind of invalid command x position in a generated valid session x mode). Commands rejected before execution (class read off the egglog::Error variant) must leave outputs, canonical dump and declared tables unchanged and the continuation - which starts by re-declaring the rejected names correctly - must behave identically to the session that never issued the bad command; run-time failures must leave C04's invariants intact and later commands must not panic. A fuzzer feeds random unicode strings, token soup, truncated/corrupted commands and nesting up to depth 400.",
    "level_note": "Panics are observed with catch_unwind in-process (an abort would kill the child and be reported as inconclusive crash). Invalid UTF-8 cannot be passed through the &str API and is not covered.",
    "floors": {"quick": {"class_Pre": 4000, "class_Exec": 400, "fuzz_inputs": 50000, "continuation_commands_compared": 30000},
               "thorough": {"class_Pre": 150000, "class_Exec": 15000, "fuzz_inputs": 1000000, "continuation_commands_compared": 1000000}},
    "assumptions": ["error class = egglog::Error variant (ParseError, TypeError(s), NoSuchRuleset, CombinedRulesetError, Shadowing, RuleAlreadyExists, DesugarError, UnsupportedProofCommand, SubsumeMergeError, Pop are 'rejected before execution')"],
}

PLANS["C13"] = {
    "jobs": simple_jobs("c13", 1600, 60000, par_n=(40, 4000)),
    "level": "exploration",
    "technique": "history monitor with row identities: sticky-flag invariant after every command, probe rules / check / extraction walked on clones, event-locality diff of raw dumps",
    "level_text": "Every row ever observed with the subsumed flag is remembered as a ground term that evaluates to it; after every later command (rebuilds, congruent merges in both orders, re-insertions, push/pop, rule-head subsumes, :subsume rewrites; serial and 4-thread/cut-off-0) the term must still evaluate to a flagged row. On clones, probe rules must match every unflagged row and no flagged row, check must succeed on flagged rows, and every node of an extracted term must rest on an unflagged row. Subsume and delete events may remove or re-flag nothing but their target row; a deleted row must be gone.",
    "level_note": "Flags are read through Enode.subsumed of the public read API; containers are not generated here (C14 covers them).",
    "floors": {"quick": {"sticky_checks": 10000, "probe_row_checks": 20000, "delete_events": 200, "histories_flag_survived_rebuild": 400},
               "thorough": {"sticky_checks": 500000, "probe_row_checks": 1000000, "delete_events": 10000, "histories_flag_survived_rebuild": 20000}},
    "assumptions": ["dump via public read API"],
}

PLANS["C07"] = {
    "jobs": simple_jobs("c07", 2000, 80000, witness_dir="witnesses/C07"),
    "level": "exploration",
    "technique": "reference-oracle runtime monitor: independent least-fixpoint minimum cost over the dump + re-evaluation of the extracted term on the engine",
    "level_text": "For generated e-graphs (random declaration/insertion order, costs 0..i64::MAX with saturating sums, :unextractable, subsumed rows, cycles, ties, containers) and every nameable class as root: extract must succeed exactly when the oracle finds a term; the result must check equal to the root, use only unsubsumed rows of extractable constructors, and have tree cost = reported cost = oracle minimum; each variant must be a member with a distinct root e-node.",
    "level_note": "Minimum cost is the least fixpoint of saturating addition; base values cost 1 and containers the sum of their elements (the default cost model). The known saturating-cost panic is recognised by its call site (src/extract.rs unwrap on None) together with a saturated class cost.",
    "floors": {"quick": {"extractions": 10000, "egraphs_with_saturated_cost": 50, "variant_extractions": 1000}, "thorough": {"extractions": 400000, "egraphs_with_saturated_cost": 2000, "variant_extractions": 40000}},
    "assumptions": ["dump via public read API", "default TreeAdditiveCostModel"],
}

def c05_jobs(tier, seed, bin_dir, replay):
    if replay:
        return [eggmon(bin_dir, "exec", "replay", seed, tier, extra={"file": replay})]
    q = tier == "quick"
    js = shards(bin_dir, "c05", seed, tier, 2400, 96000)
    # the per-shard parallel insertion path: cut-offs 0, several thread counts; crash = violation
    for j, env, lab in [(2, ALL_ZERO, "j2-zero"), (4, ALL_ZERO, "j4-zero"), (8, ALL_ZERO, "j8-zero"),
                        (4, {"EGGLOG_PARALLEL_TABLE_OP_CUTOFF": "0"}, "j4-tableop0"),
                        (3, _cut(EGGLOG_PARALLEL_ACTION_BATCH_SIZE=7), "j3-batch7")]:
        js.append(eggmon(bin_dir, "c05", f"c05-{lab}", seed * 1000 + 90 + j, tier, n=((150 if "tableop" in lab else 50) if q else 1500), threads=j, env=env, on_crash="violation"))
    return js


PLANS["C05"] = {
    "jobs": c05_jobs,
    "level": "exploration",
    "technique": "history + executable model: logged write multisets folded by a reference lattice over harness-side congruence classes, replayed in several orders/batchings on the real engine (serial and parallel insertion paths)",
    "level_text": "Write multisets over lattice-merge functions (min, max, or, and, set-union, set-intersect, nested function merge) whose keys are e-class terms collapsed by unions and congruence are replayed in 6 orders and batchings (one command per write, one rule firing, split over iterations with unions in rule heads, before/after rebuild, through the Rust update API); the stored table must equal the harness' fold and all replays must agree. :no-merge conflicts (direct and created by a union) must raise an error, equal writes must not. Serial children plus 2/3/4/8-thread children with parallel cut-offs 0.",
    "level_note": "The fold is computed by ~40 lines of harness code over a 9-term key universe; lattices whose join is neither input (set-union, or) are mandatory because min/max hide a lost merge.",
    "floors": {"quick": {"replays": 10000, "keys_checked": 40000, "nomerge_cases": 2000, "multisets_with_collisions_or_collapsed_keys": 1500},
               "thorough": {"replays": 100000, "keys_checked": 400000, "nomerge_cases": 20000, "multisets_with_collisions_or_collapsed_keys": 15000}},
    "assumptions": ["dump via public read API", "cut-offs are read once per process from the environment"],
}

def c01_jobs(tier, seed, bin_dir, replay):
    if replay:
        return [eggmon(bin_dir, "exec", "replay", seed, tier, extra={"file": replay})]
    q = tier == "quick"
    js = shards(bin_dir, "c01", seed, tier, 2000, 100000)
    js.append(eggmon(bin_dir, "c01", "c01-par4", seed * 1000 + 99, tier, n=(60 if q else 2000), threads=4, env=ALL_ZERO, extra={"big-every": 0}))
    # threshold-crossing databases under the parallel rebuild configuration
    js.append(eggmon(bin_dir, "c01", "c01-big-par4", seed * 1000 + 98, tier, n=(1 if q else 6), threads=4,
                     env={"EGGLOG_PARALLEL_REBUILD_CUTOFF": "0", "EGGLOG_PARALLEL_TABLE_OP_CUTOFF": "0"}, extra={"big-every": 1}))
    return js


PLANS["C01"] = {
    "jobs": c01_jobs,
    "level": "exploration",
    "technique": "reference-model runtime monitor: naive congruence-closure + nested-loop interpreter run in lock-step with the engine; canonical dumps, check outcomes and sampled pairwise (check (= t1 t2)) questions compared after every command",
    "level_text": "Generated monotone histories (rule-free; with rules, rewrites and schedules; congruence-chain templates; >10 000-row tables with a few unions so that the incremental rebuild runs) are executed on the engine and on a ~500-line reference interpreter (explicit partition, rebuild fixpoint, nested-loop matching). After every command the databases must be equal up to renaming of ids, every check must agree, and sampled pairs of ground terms up to depth 2 (3 in thorough) must be reported equal exactly when the reference closure says so - negative answers included. Serial and 4-thread/cut-off-0 configurations.",
    "level_note": "A disagreement is reported as a violation only after the reference model passed its own self-check (canonical rows, unique keys = its partition is a congruence containing every asserted union; it is the least one by construction). Extraction landing in the class is C07's membership check. Reach is bounded by the generator's grammar (no containers here: C14).",
    "floors": {"quick": {"dump_comparisons": 40000, "pair_questions": 400000, "pair_questions_equal": 20000, "histories_congruence_worked": 1000, "path:table_rebuild_incremental": 1, "big_cases": 4},
               "thorough": {"dump_comparisons": 400000, "pair_questions": 4000000, "pair_questions_equal": 200000, "histories_congruence_worked": 10000, "path:table_rebuild_incremental": 1, "big_cases": 40}},
    "assumptions": ["dump via public read API", "reference model = harness/eggmon/src/model.rs"],
}

PLANS["C02"] = {
    "jobs": simple_jobs("c02", 1200, 60000, par_n=(40, 1500)),
    "level": "exploration",
    "technique": "reference-oracle runtime monitor: independent hash-join evaluation of each rule body over the engine's pre-run dump vs the rows the run actually wrote; every body with and without :no-decomp; three runs per database with growth / unions / deletions / subsumptions in between",
    "level_text": "Conjunctive bodies of every hypergraph shape the property lists (chains, stars, 3/4/5-cycles, 4-cliques, lollipops, products, repeated variables, constants, i64 columns, function and constructor atoms, duplicates, primitive guards, computed variables) over generated databases (0..400 rows per table, skews, sizes straddling the 32-tuple re-sort threshold, subsumed rows, unions) write all their variables to an Out relation; after each run Out must equal Out_before + the oracle's matches on the database as it stood when the iteration began. The same rules are re-run after the database changed (cached plans). Decomposition on/off (rule option and global flag); serial and 4-thread/cut-off-0 children.",
    "level_note": "The oracle is ~120 lines of hash joins over the dump (public read API) and shares no code with the engine or with C01's model. Planner strategies other than the language's default (Gj) are reachable only through internal rebuild rules; they are exercised by every rebuild but not varied here.",
    "floors": {"quick": {"rule_runs_judged": 10000, "rule_runs_nontrivial": 2000, "path:plan_decomposed": 500, "path:plan_dynamic_resort": 10000, "matches_expected_total": 500000},
               "thorough": {"rule_runs_judged": 100000, "rule_runs_nontrivial": 20000, "path:plan_decomposed": 5000, "path:plan_dynamic_resort": 100000, "matches_expected_total": 5000000}},
    "assumptions": ["dump via public read API", "heads only insert into fresh Out relations, so ids are stable across the run"],
}

PLANS["C18"] = {
    "jobs": simple_jobs("c18", 4000, 200000, par_n=(40, 2000)),
    "level": "exploration",
    "technique": "event-log monitor on an instrumented Scheduler: conservation accounting of offered/chosen/residual matches per step, nested-loop match oracle on the pre-step dump, probe relations for applied actions, differential vs built-in stepping and saturation, C04 invariants after every step",
    "level_text": "Generated programs are stepped through an instrumented scheduler under six policies (all, none-then-all, random subsets incl. double choose, one at a time, first-n back-off, never-reseek) while the harness writes unions / inserts / subsumes between steps so that held-back matches go stale. Per step: unchosen matches must be offered again (multiset, modulo current equalities); every oracle match of the body on the pre-step database must have been offered whenever the scheduler asked to seek; every fresh offer must be an oracle match (none rests on a subsumed row); each head carries a probe insert and the probe must equal probe_before + chosen under post-step ids; C04 invariants; choose-all = built-in (run rs 1) on a sibling; fair policies = built-in saturation; rulesets and schedulers intact after a failing step.",
    "level_note": "Match oracle = model.rs nested loops over the engine's own pre-step dump. Rule bodies are written `(= (C ..) v)` because Match::get_value looks variables up by the name that survives rule canonicalisation. Rules build no new terms, so programs are confluent and terminating, which is what makes the saturation comparison meaningful.",
    "floors": {"quick": {"steps": 20000, "probe_checks": 40000, "completeness_checks": 40000, "residual_matches_tracked": 5000, "choose_all_vs_builtin": 4000, "saturation_comparisons": 1000, "programs_with_delayed_application": 600, "failing_steps_followed_up": 200},
               "thorough": {"steps": 200000, "probe_checks": 400000, "completeness_checks": 400000, "residual_matches_tracked": 50000, "choose_all_vs_builtin": 40000, "saturation_comparisons": 10000, "programs_with_delayed_application": 6000, "failing_steps_followed_up": 2000}},
    "assumptions": ["dump via public read API", "Scheduler trait is the public egglog::scheduler API"],
}

def c14_jobs(tier, seed, bin_dir, replay):
    if replay:
        return [eggmon(bin_dir, "exec", "replay", seed, tier, extra={"file": replay})]
    q = tier == "quick"
    js = shards(bin_dir, "c14", seed, tier, 1600, 80000)
    cont0 = {"EGGLOG_PARALLEL_INTRA_CONTAINER_CUTOFF": "0", "EGGLOG_PARALLEL_INTER_CONTAINER_CUTOFF": "0", "EGGLOG_PARALLEL_REBUILD_CUTOFF": "0"}
    js.append(eggmon(bin_dir, "c14", "c14-par4-containers0", seed * 1000 + 97, tier, n=(60 if q else 4000), threads=4, env=cont0, extra={"big-every": 20}))
    # hostile blocks only (in-place rebuilt container colliding with an older/younger equal one), parallel rebuild
    for j in (2, 4):
        js.append(eggmon(bin_dir, "c14", f"c14-par{j}-hostile", seed * 1000 + 90 + j, tier, n=(700 if q else 10000), threads=j, env=cont0, extra={"big-every": 0, "hostile-only": 1}))
    js.append(eggmon(bin_dir, "c14", "c14-par4-zero", seed * 1000 + 99, tier, n=(30 if q else 3000), threads=4, env=ALL_ZERO, extra={"big-every": 0}))
    return js


PLANS["C14"] = {
    "jobs": c14_jobs,
    "level": "exploration",
    "technique": "model-based runtime monitor (normal forms of container terms under a harness-side leaf partition) + seminaive/naive lock-step differential + C04 canonicity invariants after every command",
    "level_text": "Histories over 11 container sorts (Vec, Set, MultiSet, Map with eq values, Map with non-colliding eq keys, Pair, and nested Vec<Vec>, Set<Pair>, Map<i64,Vec>, Vec<Set>; elements may be boxed containers) insert containers, write container-keyed functions and union leaves. Because only leaves are unioned, equality of container terms is decided by ~40 lines of normal-form code; after every command every table's row count must equal the number of distinct normal forms, sampled (check (= t1 t2)) must agree, the database must be canonical (no stale id inside a container, no duplicate container ids), and after every single rule iteration the outputs of join rules through container-keyed tables and of primitive rules (length, contains, count, get, first/second) must have the model's size on a semi-naive and a naive e-graph whose dumps must also be equal. Threshold cases with > 1000 containers reach the incremental container rebuild; parallel children force the parallel rebuild variants.",
    "level_note": "Map key collisions are outside the claim and are refused by the generator on the model before a union is issued. Unions are only between leaves, which keeps the model trivially right; unions between boxed containers are covered by C03/C04's generators.",
    "floors": {"quick": {"size_checks": 2000000, "iterations": 2000, "pair_questions": 80000, "histories_union_changed_container": 800, "path:container_rebuild_incremental": 1, "path:container_rebuild_nonincremental_parallel": 1, "path:table_refresh_rows_for_values": 1000},
               "thorough": {"size_checks": 20000000, "iterations": 20000, "pair_questions": 800000, "histories_union_changed_container": 8000, "path:container_rebuild_incremental": 1, "path:container_rebuild_nonincremental_parallel": 1, "path:table_refresh_rows_for_values": 10000}},
    "assumptions": ["dump via public read API", "EGraph::get_size reports live rows"],
}

def relmon(bin_dir, label, seed, n, ops=60, threads=1, env=None, profile="release", timeout=3000):
    exe = os.path.join(os.path.dirname(bin_dir), profile, "relmon")
    argv = [exe, "c16", "--seed", str(seed), "--n", str(n), "--ops", str(ops), "--threads", str(threads), "--out", "{out}"]
    return {"label": label, "argv": argv, "env": env or {}, "timeout": timeout, "on_crash": "violation"}


def c16_jobs(tier, seed, bin_dir, replay):
    q = tier == "quick"
    k = 4 if q else 16
    per = 1500 if q else 40000
    js = [relmon(bin_dir, f"relmon-s{i}", seed * 1000 + i, per, ops=(60 if i % 2 == 0 else 200)) for i in range(k)]
    # parallel table operations (cut-offs 0) inside a 4-thread pool
    js.append(relmon(bin_dir, "relmon-par4", seed * 1000 + 99, 300 if q else 8000, threads=4, env=ALL_ZERO))
    if not q:
        # production profile: internal debug assertions compiled out, so a stale read is a wrong answer, not a panic
        js += [relmon(bin_dir, f"relmon-fast-s{i}", seed * 1000 + 50 + i, per, ops=120, profile="fast") for i in range(4)]
    return js


PLANS["C16"] = {
    "jobs": c16_jobs,
    "packages": ("relmon",),
    "extra_builds": {"thorough": [("fast", ("relmon",))]},
    "engine": "relmon",
    "level": "exploration",
    "rule": "random operation sequences (staged inserts/removals through several buffers dropped in random order, merge_all/merge_table, clear_table, unions + value-level rebuild against the union-find table, clone-and-continue, cached query plans re-instantiated and run) on 1-3 SortedWritesTables (0..4 keys, with/without sort column, merge = last/min/keep-old) plus the DisplacedTable, compared after every visible step with a BTreeMap model: len, full scan, get_row, constrained scans, fast_subset, updates_since, index-backed 1- and 2-atom queries. Non-trivial = sequence ending with a non-empty table; distinct by final model contents.",
    "technique": "model-based sequence checking at every step (BTreeMap reference model) through core-relations' public API, incl. index-backed rule-set queries from cached plans; serial, 4-thread/cut-off-0 and assertion-free builds",
    "level_text": "Thousands of random operation sequences (60 and 200 operations) drive Database / SortedWritesTable / DisplacedTable through the public API while a 40-line map model is updated in step; after every visible operation every read the property lists is compared with the model: len, point lookups of present and absent keys, full scans (each live row once), scans under Eq/EqConst/Lt/Le/Gt/Ge constraints on the sort column and on others, fast_subset, updates_since within a major generation, and one- and two-atom queries through cached hash indexes whose plans were compiled earlier and are re-instantiated against the current database. Sequences cross the compaction threshold and bump generations between an index build and its next use.",
    "level_note": "The harness follows the documented protocol (buffers are dropped before anything that merges; RuleSets are one-shot, CachedPlans long-lived; extra constraints on cached plans are sort-column comparisons; non-commutative merge functions get one write per key per round; rebuilt tables use a commutative merge). Those are restrictions of the generator, not of the oracle.",
    "floors": {"quick": {"steps_checked": 100000, "reads": 3000000, "rule_set_queries": 200000, "rule_set_queries_nonempty": 60000, "rebuilds": 15000, "clones": 8000, "generation_bumps_observed": 500, "path:table_parallel_insert": 1},
               "thorough": {"steps_checked": 1000000, "reads": 30000000, "rule_set_queries": 2000000, "rule_set_queries_nonempty": 600000, "rebuilds": 150000, "clones": 80000, "generation_bumps_observed": 5000, "path:table_parallel_insert": 1}},
    "assumptions": ["model = BTreeMap<key,row> + min-leader union-find in harness/relmon/src/main.rs"],
}

PLANS["C12"] = {
    "jobs": simple_jobs("c12", 600, 40000, par_n=(40, 1500), witness_dir="witnesses/C12"),
    "level": "other",
    "technique": "differential prove<=>check monitor + panic monitor + independent structural proof walker + mutation monitor on the in-tree proof checker (program alterations and single-point proof alterations must be rejected)",
    "level_text": "For generated proof-supported programs run on a plain and a proofs e-graph: sampled true and false facts must be provable exactly when check succeeds on the plain engine; prove must not panic; every returned proof must be accepted by the in-tree checker against the original program and by an independent structural walker (Trans middle terms, Sym flip, Congr child index and rebuilt term); and the in-tree checker must reject the proof against a program from which a rule it names, or every action and rule mentioning the constructor of one of its Fiat leaves, was removed, and must reject single-point alterations that are unjustified on syntactic grounds (swapped Trans operands whose end terms differ, a Congr index pointing at another argument, a dropped Rule premise, a Fiat leaf equated with a term of another sort).",
    "level_note": "Checker soundness is a universal claim; this decides it only against the listed alteration classes. Alterations my structural walker still accepts are discarded as semantically neutral. Facts never rest on subsumed rows (no subsume is generated), so prove<=>check is claimed without exclusions. Merge-function alterations are not probed.",
    "floors": {"quick": {"facts": 6000, "facts_true": 3000, "proofs": 3000, "probes_rule_removed": 1000, "probes_fact_removed": 4000, "probes_proof_altered": 10000, "proofs_with_Rule": 800, "proofs_with_Congr": 1500},
               "thorough": {"facts": 60000, "facts_true": 30000, "proofs": 30000, "probes_rule_removed": 10000, "probes_fact_removed": 40000, "probes_proof_altered": 100000, "proofs_with_Rule": 8000, "proofs_with_Congr": 15000}},
    "coverage_extra": lambda c, t: {"explanation": "mutation classes probed on the in-tree checker: rule removed from the checking program (%d), facts/actions removed (%d), proof alterations SwapTrans/CongrIndex/DropPremise/FiatRhs (%d, of which %d discarded as neutral); prove<=>check on %d facts (%d true)" % (c.get("probes_rule_removed", 0), c.get("probes_fact_removed", 0), c.get("probes_proof_altered", 0), c.get("probes_neutral_discarded", 0), c.get("facts", 0), c.get("facts_true", 0))},
    "assumptions": ["plain engine's check is the reference for provability", "hook verif_check_proof runs the unmodified in-tree ProofStore::check_proof"],
}

NOT_APPLICABLE = {}
