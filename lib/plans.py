"""Per-property execution plans: which monitor children to run, with which
configuration, coverage floors, and evidence level."""
import os

def eggmon(bin_dir, mon, label, seed, tier, n=None, threads=1, env=None, extra=None, timeout=3000, on_crash="inconclusive"):
    argv = [os.path.join(bin_dir, "eggmon"), mon, "--seed", str(seed), "--tier", tier, "--out", "{out}", "--threads", str(threads)]
    if n is not None:
        argv += ["--n", str(n)]
    for k, v in (extra or {}).items():
        argv += ["--" + k, str(v)]
    return {"label": label, "argv": argv, "env": env or {}, "timeout": timeout, "on_crash": on_crash}


def shards(bin_dir, mon, seed, tier, quick_n, thorough_n, nshards_quick=4, nshards_thorough=16, **kw):
    """Split n cases over several child processes with derived seeds."""
    n = quick_n if tier == "quick" else thorough_n
    k = nshards_quick if tier == "quick" else nshards_thorough
    per = max(1, n // k)
    return [eggmon(bin_dir, mon, f"{mon}-s{i}", seed * 1000 + i, tier, n=per, **kw) for i in range(k)]


def c04_jobs(tier, seed, bin_dir, replay):
    if replay:
        return [eggmon(bin_dir, "c04", "replay", seed, tier, extra={"replay": replay})]
    jobs = shards(bin_dir, "c04", seed, tier, 4000, 200000)
    # parallel configuration: 4 threads, cut-offs 0
    n = 500 if tier == "quick" else 20000
    jobs.append(eggmon(bin_dir, "c04", "c04-par", seed * 1000 + 99, tier, n=n, threads=4, env=ALL_ZERO))
    return jobs


ALL_ZERO = {}


def _init_all_zero():
    # filled from the repo's parallel_heuristics.rs names (kept in one place)
    for name in [
        "EGGLOG_PARALLEL_DB_LEVEL_OP_CUTOFF",
        "EGGLOG_PARALLEL_INDEX_CONSTRUCTION_CUTOFF",
        "EGGLOG_PARALLEL_REBUILD_CUTOFF",
        "EGGLOG_PARALLEL_INTRA_CONTAINER_CUTOFF",
        "EGGLOG_PARALLEL_INTER_CONTAINER_CUTOFF",
        "EGGLOG_PARALLEL_TABLE_OP_CUTOFF",
    ]:
        ALL_ZERO[name] = "0"
    ALL_ZERO["EGGLOG_PARALLEL_ACTION_BATCH_SIZE"] = "1"
    ALL_ZERO["EGGLOG_PARALLEL_FREE_JOIN_FORK_DEPTH"] = "4"
    ALL_ZERO["EGGLOG_PARALLEL_TASKS_PER_THREAD"] = "3"


_init_all_zero()

PLANS = {
    "C04": {
        "jobs": c04_jobs,
        "level": "fault_enumeration",
        "floors": {"quick": {"inspections": 20000, "histories_with_runtime_fault": 200},
                   "thorough": {"inspections": 1000000, "histories_with_runtime_fault": 10000}},
        "technique": "runtime invariant monitor at every command boundary (public read API), fault-sequence injection",
        "level_text": "Generated command histories with injected run-time faults (panicking rule next to unioning rules, :no-merge conflict, failing primitive, failed lookup) are executed on the real engine; after every single command, Ok or Err, the monitor recomputes key uniqueness, id canonicity, congruence and container uniqueness from the public read API. Serial and 4-thread/cut-off-0 configurations.",
        "level_note": "Trusts the public read API (constructor_enodes/function_entries/value_to_class_id/inner_values) to report what is stored; hidden helper tables are not inspected; reach is bounded by the generator's grammar.",
        "assumptions": [
            "invariants are recomputed from the public read API (functions_iter, constructor_enodes, function_entries, value_to_class_id, container inner_values)",
            "hidden (compiler-generated) tables are not inspected",
        ],
    },
}

NOT_APPLICABLE = {}
