#!/usr/bin/env python3
"""Print the sub-agent prompt for a seeded change against one property.
usage: mkprompt.py <ID> <worktree> [extra hint]"""
import json, os, sys
V = os.path.dirname(os.path.dirname(os.path.abspath(__file__)))
pid, wt = sys.argv[1], sys.argv[2]
hint = sys.argv[3] if len(sys.argv) > 3 else ""
for l in open(os.path.join(V, "properties.jsonl")):
    p = json.loads(l)
    if p["id"] == pid:
        break
t = open(os.path.join(V, "lib", "mutant_prompt.md")).read()
t = (t.replace("{WT}", wt).replace("{ID}", pid).replace("{TITLE}", p["title"]).replace("{STATEMENT}", p["statement"])
     .replace("{QUANT}", p["quantifier"]["text"]).replace("{FILES}", ", ".join(p["anchors"].get("files", []))))
if hint:
    t += "\nAdditional steer: " + hint + "\n"
print(t)
